#!/usr/bin/env python3
"""Renders mutants/RESULTS.tsv (written by tools/run_mutants.sh) as mutants/RESULTS.md."""
import csv, os, re
root = os.path.dirname(os.path.dirname(os.path.abspath(__file__)))
rows = list(csv.DictReader(open(os.path.join(root, "mutants/RESULTS.tsv")), delimiter="\t"))
notes = {}
try:
    for ln in open(os.path.join(root, "mutants/NOTES.tsv")):
        k, _, v = ln.rstrip("\n").partition("\t")
        notes[k] = v
except OSError:
    pass
out = ["# Hand-made property-breaking changes and the check that catches each", "",
       "Produced by `tools/run_mutants.sh` (quick check of the mutant's property, isolated scratch worktree, 3 mutants side by side",
       "with 5 workers each, 40 s budget). exit 1 = VIOLATION reported, 0 = not caught in that budget, 2 = build/harness trouble.", "",
       "| mutant | property | files changed | exit | violated invariant(s) | runs | note |", "|---|---|---|---|---|---|---|"]
for r in rows:
    patch = open(os.path.join(root, "mutants", r["mutant"] + ".patch")).read()
    files = ", ".join(sorted(set(re.findall(r"^\+\+\+ b/(\S+)", patch, re.M))))
    out.append(f"| {r['mutant']} | {r['property']} | {files} | {r['exit']} | {r['invariants']} | {r['runs']} | {notes.get(r['mutant'], '')} |")
caught = sum(1 for r in rows if r["exit"] == "1")
out += ["", f"{caught} of {len(rows)} caught."]
open(os.path.join(root, "mutants/RESULTS.md"), "w").write("\n".join(out) + "\n")
print(f"{caught}/{len(rows)} caught")
