#!/usr/bin/env python3
"""Regenerates /verif/MANIFEST.json from the table below (single source of truth for the claims)."""
import json, os, subprocess

ROOT = os.path.dirname(os.path.dirname(os.path.abspath(__file__)))
ids = [json.loads(l)["id"] for l in open(os.path.join(ROOT, "properties.jsonl"))]

TECH = "deterministic simulation with fault injection: seeded search over schedules/faults of the real BandApp driven by a simulated consensus, mempool and parties; online reference-model monitor; tape minimisation and exact replay"

# property -> (design section, what the check gives, trusted base / limits)
CLAIMS = {
 "C01": ("§5/C01", "Reference model of the request life cycle (accept/reject prediction for every report, resolve-exactly-once, result content = model evaluation of the script over the reports present, expiry height, immutability, clean-up, drain-phase liveness) compared with the real chain after every block over seeded histories with tx loss/dup/delay/reorder, tight gas, time faults.",
         "Sampling, not proof. Chosen validators are read from the stored request (their correctness is C09). Script semantics limited to six harness scripts; wasm VM trusted. IBC-originated requests not generated."),
 "C03": ("§5/C03", "Every MsgSubmitSignature is predicted by an independent big-integer Schnorr/Lagrange verifier (ref/schnorr) and compared with the chain's accept/reject; each completed signing's published signature is re-verified independently against group key and message; partial-signature store equals the accepted set. Byzantine members corrupt exactly one component (R, s, signer, member id, message, committee, nonce).",
         "Sampling: committees/keys/messages drawn along histories, not enumerated (a single wrong Lagrange-table entry is found only if a committee using it is drawn). Group and member public keys are taken from chain state (their correctness is C04)."),
 "C04": ("§5/C04", "Members run the DKG rounds with the real pkg/tss functions and the real cylinder share handling (verif-tagged export); deviating members corrupt shares, complain falsely, forge key-sym/signatures, send wrong-length commitments, replay, impersonate or stay silent. Model of accepted round messages, expected complaint outcomes and malicious flags compared with the chain every block; honest members never blamed; on ACTIVE the group key and every member key are recomputed from the accepted commitments with independent big-integer arithmetic and threshold / threshold-1 subsets of the members' own derived shares are interpolated; FALLEN/EXPIRED/clean-up rules.",
         "Sampling. Shares dealt to deviating recipients are not checked (they may collude). A change that only prevents groups from ever becoming ACTIVE does not violate the statement (reported as a zero probe, not a violation)."),
 "C05": ("§5/C05", "FIFO queue model per member fed by accepted MsgSubmitDEs/MsgResetDE; every assignment announced by an ordered request_signature event must pop the model queue head, never a consumed or reset pair; persisted attempts cross-checked against events; on-chain queues equal model queues after every block; over-limit submissions predicted.",
         "Sampling. Assignment order inside a block is taken from the ordered event stream and cross-checked against the persisted attempts. Signing creations that fail after a dequeue are provoked by multi-message transactions and tight gas."),
 "C06": ("§5/C06", "Model of each validator's standing prices (from accepted submissions, with the chain's retention rule) and oracle-activity flags; at every block end every current feed's status and price are recomputed: power sums with big integers, quorum from bonded tokens, status rule, and the README's recency/power-weighted median implemented independently as an integral over cumulative power (ref/median); ties in (timestamp, power) are tried in every order; validators deactivated in the same end block may be counted or not. Plus boundary-biased differential draws of the real median functions on tiny integers each block.",
         "Sampling of power/price/timestamp vectors (histories plus tiny-integer differential draws). Feed list correctness is C07; activity flags are C15."),
 "C07": ("§5/C07", "Stake model (delegations, restaked coins, locks) fed by accepted staking/restake operations; every MsgVote checked against the TRUE big-integer sum of its powers vs. the voter's total power at that moment; stored vote, lock under the feeds vault, every signal's total and the by-power index compared with the model after every block; at each update block the feed list is checked as a set (all eligible, top by power, size, interval formula) and must not change between update blocks.",
         "Sampling. The int64-wrap defect found by this check was repaired (see known_findings.json); the check reports it again if it returns."),
 "C08": ("§5/C08", "Per-tunnel model (last sent prices, last full send, sequence, activity, fee-payer balance): at every block end each active tunnel is evaluated from this block's feed prices: insufficient funds => deactivated and nothing else; not due => nothing; due => either a packet with the next sequence carrying exactly the expected prices and charging base+route fee once, or a failure event with no persistent effect at all (sequence, packets, last prices, balances unchanged); where the model can show the TSS route must succeed, a failure is a violation. Manual triggers, packets stored 1..Sequence, ledger of fee payers and the module account. Market prices are aimed at each tunnel's soft/hard thresholds.",
         "Sampling. IBC route: only the failure path (no counterparty chain). 'Must succeed' is asserted only for fixed-point TSS tunnels with short signal ids and enough available members at the end of the block."),
 "C09": ("§5/C09", "Rolling seed recomputed independently from the block hashes the conductor produced; for every accepted data request the committee is recomputed with an own NIST SP 800-90A HMAC-DRBG and an own implementation of the sampling specification over the model's eligible set (bonded, oracle-active, power-index order) and compared with the stored request (order included); for every signing attempt the eligible list (active, queued nonce in the model, id order) and partial Fisher-Yates are recomputed and compared; too-few-eligible must be rejected. Plus a differential run of the real sampler on tiny boundary-hitting weights per block.",
         "Sampling over (seed, id, weights) produced by histories; totals near 2^64 not reachable through bonded stake. Requests in a block after a staking transaction are skipped (power index may have moved)."),
 "C11": ("§5/C11", "For every signing created (direct text / feeds-price / oracle-result requests, oracle results with an encoder at resolve time, tunnel packets, transition hand-over) the signed message is split as keccak(originator) | block time | signing id | route selector | kind tag | body and checked: originator hash recomputed from the request the simulator issued, time and id bound, tags = keccak(name)[:4], body decoded with independent ABI/proto decoders to exactly the on-chain data at request time (stored result, feed prices, stored packet, transition key and time, requested text), tick-encoded prices bracketed with 400-bit arithmetic (10^9*1.0001^t <= price < next), all messages of a run pairwise distinct (identical content is re-requested on purpose), module-internal content kinds rejected for users, no unattributed signing.",
         "Sampling of contents/encoders/prices (incl. 0, 1, 2^64-1 and threshold-aimed prices). TunnelSignatureOrder is not registered as a user-decodable Content, so only the transition kind exercises the IsInternal barrier. Injectivity over all inputs is sampled, not proved."),
 "C13": ("§5/C13", "Ledger model of payers, data-source treasuries, signing members and the bandtss escrow compared with bank balances after every block; fee limits drawn at cost-1 / cost / cost+1 / missing denom, poor payers; accept => exact movement within the limit, fee-rejection => model cost really exceeds the limit; payouts exactly once to the assigned members of the final attempt of the current-group signing, nothing for FALLEN or incoming-group signatures; escrow covers unfinished paid signings. Profiles: oracle with fee-bearing data sources, TSS with retries, governance transitions.",
         "Sampling. Inflation and community tax are switched off in these profiles so that only the services move coins. Rejected transactions are atomic by the SDK's transaction semantics; the end-block creations (oracle result signing) are checked through the ledger. IBC relay-paid requests are not generated."),
 "C14": ("§5/C14", "On every block: total supply changes only by the minted amount and the distribution module account covers community pool + outstanding rewards. On quiet blocks (no transactions, no end-block bank movement) the whole state difference is the begin-block allocation and is recomputed exactly from the pre-state: oracle share to oracle-active voters by voting power with the community-tax part and the remainder to the proposer, signing-member share of the remainder split equally among active members with a queued nonce with its remainder to the community pool, then the SDK's distribution of the rest; compared with every validator's outstanding rewards, every member's balance, the community pool and the emptied fee collector. Fee pools in several denominations (0,1,2,...,large), percentages 0/1/33/50/70/100, tax 0..1, absent and nil voters, varying eligibility.",
         "Sampling of amount/percentage vectors. The minted amount is read from the mint event (SDK minter trusted); the SDK's own distribution formula is modelled only to isolate the band-specific shares. Percentages above 100 used to halt the chain and are now rejected (see known_findings.json)."),
 "C15": ("§5/C15", "Model of activation history, accepted reports and price submissions: every observed deactivation must be justified by a genuine miss (expired request that chose the validator, lacks its report and was made after its activation; or a current feed without a sufficiently recent price outside both grace periods); accepted MsgActivate only when inactive and past the penalty; on-chain activity flag equals the activation/deactivation history. Block times are aimed at every boundary (price time + interval, grace ends, penalty ends).",
         "Only-if direction, as the statement is phrased; the block-height fallback only makes the chain more lenient and is not mirrored."),
 "C16": ("§5/C16", "Stake model with boundary-aimed amounts (exactly the unlocked slack, one more): accepted undelegation/unstake must leave total power >= the largest lock over active vaults, a refusal for 'locked' must be backed by an active lock, rejected attempts change nothing (stake, delegation and lock records equal the model), module-level SetLockedPower/DeactivateVault applied between blocks on every replica, vault never reactivates, restake module balance == sum of stake records, by-power lock index == locks (raw store iteration).",
         "No slashing in these histories (all validators vote), as the property assumes. Redelegation keeps total power: either outcome is accepted, only state consistency is checked."),
 "C17": ("§5/C17", "Per-operation model of deposits/withdrawals/activation by creators and strangers with amounts aimed at the minimum deposit and at own records: withdraw accepted only within the own record, activation only by the creator with total >= minimum while inactive, withdrawal below the minimum deactivates, total == sum of records, active index == flags, module balance covers totals, depositor and module balances equal a ledger model (rejected operations move nothing).",
         "Sampling. Minimum deposit parameter fixed per run."),
 "C18": ("§5/C18", "Executable specification state machine of the single transition slot advanced per block in end-blocker order (gov, tss, bandtss) from facts owned by other modules (proposal executed, DKG outcome, hand-over signing outcome, block time) and compared with the chain's current group, transition record and module member list after every block; proposal acceptance predicted (window, in-progress, forced-group validity); requests while a transition awaits execution must create a current-group signing and at most an incoming-group one.",
         "Sampling. DKG outcome and signing outcome are taken from chain state (their correctness is C04/C10). 'Without affecting the current group's signing' is decided by the C05/C09 checks, whose workloads include this profile."),
 "C10": ("§5/C10", "Per-attempt model: stored expiry = creation + period in force; time-out never early, exactly on time while the parameter is unchanged; SUCCESS in the block of the last share; retry iff attempts left and enough available members (model availability at that point of the end block) else FALLEN; penalised set = idle assigned members active in the owning module; status/attempt monotone; one outcome event; interim data removed; drain-phase liveness.",
         "Sampling. Ordering of end-block decisions is read from the ordered event stream; availability and activity flags are model state (queues, flags) updated from inputs and events. Penalty-set equality is skipped in blocks where the module's member list itself changed (transition)."),
}

checks = []
for pid in ids:
    if pid not in CLAIMS:
        continue
    ref, text, note = CLAIMS[pid]
    eng = "chainsim" if pid not in ("C19", "C20") else ("yodasim" if pid == "C19" else "grogusim")
    checks.append({
        "property_id": pid,
        "quick_cmd": f"./check {pid} quick",
        "thorough_cmd": f"./check {pid} thorough",
        "evidence_file": f"/verif/evidence/{pid}.json",
        "replay_cmd_template": "./check replay {path}",
        "engine": eng,
        "level_claimed": {"category": "exploration", "text": text, "design_ref": "DESIGN.md " + ref},
        "level_note": note,
        "technique": TECH,
    })

hook_commits = subprocess.run(["git", "-C", "/repo", "log", "--format=%H %s"], capture_output=True, text=True).stdout.splitlines()
hook_commits = [l.split()[0] for l in hook_commits if "verif hook" in l]

m = {
 "version": 1,
 "setup_cmd": "./check setup",
 "hooks": {"guard": "verif (Go build tag)", "enable": "go1.26.8 test -c -tags verif ./<engine>/ in /verif/sim (module with replace github.com/bandprotocol/chain/v3 => /repo)",
           "baseline_off_cmd": "cd /repo && GOFLAGS=-mod=mod go test -vet=off -count=1 -timeout 25m ./...",
           "source_commits": hook_commits, "add_only": True},
 "engines": [
  {"name": "chainsim", "path": "sim/chainsim", "serves_properties": ["C%02d" % i for i in range(1, 19)], "kind_free_text": "real BandApp replicas driven through ABCI by a simulated consensus/mempool; simulated actors; per-property monitors"},
  {"name": "yodasim", "path": "sim/yodasim", "serves_properties": ["C19"], "kind_free_text": "real yoda handler goroutines in a testing/synctest bubble over stub RPC/executor"},
  {"name": "grogusim", "path": "sim/grogusim", "serves_properties": ["C20"], "kind_free_text": "real grogu signaller+submitter in a testing/synctest bubble over the real feeds module"},
 ],
 "checks": checks,
 "not_applicable": [{"property_id": i, "reason": "check not built yet (work in progress; DESIGN.md describes the planned simulation check)"} for i in ids if i not in CLAIMS],
 "notes": "Deterministic simulation with fault injection; see DESIGN.md. Exit 0 held / 1 VIOLATION / 2 build or harness trouble.",
}
json.dump(m, open(os.path.join(ROOT, "MANIFEST.json"), "w"), indent=1)
print("claimed:", [c["property_id"] for c in checks])
