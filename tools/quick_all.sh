#!/bin/bash
# usage: tools/quick_all.sh <budget_s> C01 C03 ...
b=$1; shift
for p in "$@"; do VERIF_BUDGET_S=$b ./check $p quick 2>&1 | grep -v "^built\|^warning" | tail -4; done
