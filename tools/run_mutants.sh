#!/bin/bash
# usage: tools/run_mutants.sh [budget_s] [glob] [parallel]
# Runs every mutants/<Cnn>-*.patch against its property's quick check in isolated scratch worktrees (/repo untouched)
# and writes mutants/RESULTS.tsv. Evidence of these runs is NOT written to evidence/.
set -u
budget=${1:-40}; glob=${2:-C*}; par=${3:-3}
cd /verif || exit 2
out=mutants/RESULTS.tsv
tmp=$(mktemp -d /tmp/runmut.XXXX)
one() {
  p=$1; prop=$(basename $p | cut -d- -f1)
  log=$(VERIF_WORKERS=$(( 16 / par )) tools/mutant_iso.sh $p $prop $budget 2>&1)
  rc=$(echo "$log" | sed -n 's/^mutant .* exit=\([0-9]*\)$/\1/p' | tail -1)
  inv=$(echo "$log" | sed -n 's/^  invariant=\([^ ]*\).*/\1/p' | sort -u | tr '\n' ',' | sed 's/,$//')
  runs=$(echo "$log" | sed -n 's/.* quick: runs=\([0-9]*\).*/\1/p' | tail -1)
  printf "%s\t%s\t%s\t%s\t%s\n" "$(basename $p .patch)" "$prop" "${rc:-?}" "${inv:--}" "${runs:-?}" > $tmp/$(basename $p).row
  cat $tmp/$(basename $p).row
}
export -f one; export budget par tmp
ls mutants/$glob.patch | xargs -P $par -I{} bash -c 'one {}'
if [ "$glob" = "C*" ]; then
  printf "mutant\tproperty\texit\tinvariants\truns\n" > $out
  cat $tmp/*.row | sort >> $out
fi
rm -rf $tmp
