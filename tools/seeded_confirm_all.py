#!/usr/bin/env python3
"""usage: tools/seeded_confirm_all.py <seeded id>...  -- runs tools/seeded_confirm.sh for each id, taking the package directory from
seeded/<id>/meta.json (demo_package_dir) and deriving the -run pattern from the test functions in seeded/<id>/demo_test.go."""
import json,re,subprocess,sys,os
ids=sys.argv[1:]
for pid in ids:
    d='/verif/seeded/'+pid
    meta=json.load(open(d+'/meta.json'))
    pkg=meta.get('demo_package_dir').strip('./').rstrip('/')
    src=open(d+'/demo_test.go').read()
    pats=[]
    for m in re.finditer(r'^func \((\w+) \*(\w+)\) (Test\w+)\(', src, re.M):
        pats.append('Test'+m.group(2)+'/'+m.group(3)+'$')
    for m in re.finditer(r'^func (Test\w+)\(t \*testing\.T\)', src, re.M):
        pats.append('^'+m.group(1)+'$')
    pat='|'.join(pats)
    r=subprocess.run(['/verif/tools/seeded_confirm.sh',pid,pkg,'demo_test.go',pat],capture_output=True,text=True)
    print(r.stdout.strip().splitlines()[-1] if r.stdout.strip() else r.stderr[-300:], flush=True)
