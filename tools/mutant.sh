#!/bin/bash
# usage: tools/mutant.sh <patch-file> <property> [budget_s]   -- applies the patch to /repo, runs the quick check, reverts.
set -u
patch=$(readlink -f "$1"); prop=$2; budget=${3:-30}
cd /repo || exit 2
if ! git diff --quiet; then echo "/repo has uncommitted changes"; exit 2; fi
git apply "$patch" || { echo "patch does not apply"; exit 2; }
cd /verif
mkdir -p /tmp/verif-mutant-evidence; VERIF_EVIDENCE_DIR=/tmp/verif-mutant-evidence VERIF_BUDGET_S=$budget VERIF_MIN_S=${VERIF_MIN_S:-15} ./check "$prop" quick 2>&1 | grep -v "^warning" | tail -8
rc=${PIPESTATUS[0]}
cd /repo && git checkout -- . 
echo "mutant $(basename $patch) on $prop: exit=$rc"
