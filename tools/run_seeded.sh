#!/bin/bash
# usage: tools/run_seeded.sh [budget_s] [parallel] [ids...]
# Runs the quick check of each property against its sub-agent-written change seeded/<Cnn>/patch.diff in an isolated scratch
# worktree (/repo untouched) and writes seeded/RESULTS.tsv (one row per id; rows of ids not re-run are kept).
set -u
budget=${1:-60}; par=${2:-3}; shift 2 2>/dev/null
ids=${*:-$(ls /verif/seeded | grep '^C[0-9]')}
cd /verif || exit 2
tmp=$(mktemp -d /tmp/runseed.XXXX)
one() {
  id=$1
  t0=$(date +%s)
  log=$(VERIF_WORKERS=$(( 16 / par )) tools/mutant_iso.sh seeded/$id/patch.diff ${id%%-*} $budget 2>&1)
  rc=$(echo "$log" | sed -n 's/^mutant .* exit=\([0-9]*\)$/\1/p' | tail -1)
  inv=$(echo "$log" | sed -n 's/^  invariant=\([^ ]*\).*/\1/p' | sort -u | tr '\n' ',' | sed 's/,$//')
  runs=$(echo "$log" | sed -n 's/.* quick: runs=\([0-9]*\).*/\1/p' | tail -1)
  printf "%s\t%s\t%s\t%s\t%s\n" "$id" "${rc:-?}" "${inv:--}" "${runs:-?}" "$(( $(date +%s) - t0 ))s" > $tmp/$id.row
  echo "$log" > $tmp/$id.log
  cat $tmp/$id.row
}
export -f one; export budget par tmp
echo $ids | tr ' ' '\n' | xargs -P $par -I{} bash -c 'one {}'
touch seeded/RESULTS.tsv
for f in $tmp/*.row; do id=$(basename $f .row); grep -v "^$id	" seeded/RESULTS.tsv > $tmp/keep; cat $tmp/keep $f | grep -v '^id	' | sort > seeded/RESULTS.tsv; done
sed -i '1i id\texit\tinvariants\truns\twall' seeded/RESULTS.tsv
mkdir -p /tmp/seeded-logs; cp $tmp/*.log /tmp/seeded-logs/ 2>/dev/null
rm -rf $tmp
