#!/bin/bash
# usage: tools/mutant_iso.sh <patch-file> <property> [budget_s]
# Like mutant.sh, but /repo is left untouched: the patch is applied to a scratch git worktree of /repo and the engines are
# built against that worktree (VERIF_REPO). Several of these can run side by side. Worktree and binaries are removed afterwards.
set -u
patch=$(readlink -f "$1"); prop=$2; budget=${3:-30}
id=mut-$$-$RANDOM
wt=/tmp/$id
git -C /repo worktree add --detach $wt >/dev/null 2>&1 || { echo "cannot create worktree"; exit 2; }
cleanup() { git -C /repo worktree remove --force $wt >/dev/null 2>&1; rm -rf $wt-bin $wt-ev $wt-rp; }
trap cleanup EXIT
git -C $wt apply "$patch" || { echo "patch does not apply"; exit 2; }
mkdir -p $wt-bin $wt-ev $wt-rp
cd /verif
VERIF_REPO=$wt VERIF_BIN_DIR=$wt-bin VERIF_EVIDENCE_DIR=$wt-ev VERIF_REPLAY_DIR_OVERRIDE=$wt-rp VERIF_WORKERS=${VERIF_WORKERS:-16} \
  VERIF_BUDGET_S=$budget VERIF_MIN_S=${VERIF_MIN_S:-15} ./check "$prop" quick 2>&1 | grep -v "^warning" | tail -8
rc=${PIPESTATUS[0]}
echo "mutant $(basename $patch) on $prop: exit=$rc"
