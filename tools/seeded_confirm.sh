#!/bin/bash
# usage: tools/seeded_confirm.sh <Cnn> <package dir> <demo file name in seeded/<Cnn>/> <go test -run pattern> [extra go test args]
# Confirms a seeded change in a scratch worktree: the demonstration passes on the unchanged tree and fails with patch.diff.
set -u
id=$1; pkg=$2; demo=$3; pat=$4; shift 4
src=/verif/seeded/$id
wt=/tmp/sc-$id-$$
export GOFLAGS=-mod=mod GOPROXY=off GOSUMDB=off GOTOOLCHAIN=local
git -C /repo worktree add --detach $wt >/dev/null 2>&1 || exit 2
trap 'git -C /repo worktree remove --force $wt >/dev/null 2>&1' EXIT
cp $src/$demo $wt/$pkg/zz_seeded_demo_test.go
cd $wt
{
echo "## confirmation of seeded change $id ($(date -u +%FT%TZ)), commit $(git rev-parse --short HEAD)"
echo "### unchanged tree: go test -vet=off -count=1 -run '$pat' $* ./$pkg/"
go test -p 8 -vet=off -count=1 -run "$pat" "$@" ./$pkg/ 2>&1 | tail -15
rc1=${PIPESTATUS[0]}
git apply $src/patch.diff || echo "PATCH DOES NOT APPLY"
echo "### with patch.diff:"
go test -p 8 -vet=off -count=1 -run "$pat" "$@" ./$pkg/ 2>&1 | tail -25
rc2=${PIPESTATUS[0]}
echo "### existing tests of the package with patch.diff (demo removed):"
rm -f $pkg/zz_seeded_demo_test.go
go test -p 8 -vet=off -count=1 ./$pkg/ 2>&1 | tail -3
rc3=${PIPESTATUS[0]}
echo "RESULT id=$id clean_exit=$rc1 patched_exit=$rc2 existing_tests_exit=$rc3 confirmed=$([ $rc1 = 0 ] && [ $rc2 != 0 ] && [ $rc3 = 0 ] && echo yes || echo NO)"
} > $src/confirm.txt 2>&1
tail -1 $src/confirm.txt
