#!/usr/bin/env python3
"""Merges seeded/<id>/confirm.txt and seeded/RESULTS.tsv into each seeded/<id>/meta.json and renders seeded/RESULTS.md."""
import csv, json, os
root = os.path.dirname(os.path.dirname(os.path.abspath(__file__)))
sd = os.path.join(root, "seeded")
rows = {r["id"]: r for r in csv.DictReader(open(os.path.join(sd, "RESULTS.tsv")), delimiter="\t")}
notes = {}
try:
    for ln in open(os.path.join(sd, "NOTES.tsv")):
        k, _, v = ln.rstrip("\n").partition("\t")
        notes[k] = v
except OSError:
    pass
out = ["# Property-breaking changes written by independent sub-agents, and the check that catches each", "",
       "Each change was written by a fresh sub-agent that saw only the property's text and a scratch git worktree of /repo (nothing",
       "from /verif). It compiles and passes the existing tests of the touched packages; `patch.diff` is the change, `*_test.go` and",
       "`demo_output.txt` the agent's demonstration, `confirm.txt` our own confirmation in a fresh scratch worktree",
       "(`tools/seeded_confirm.sh`: demonstration passes on the unchanged tree, fails with the patch, existing package tests still pass).",
       "`tools/run_seeded.sh` then runs the quick check of the property against the patched tree (isolated worktree, 60 s budget).", "",
       "| id | change (agent's summary) | needs to manifest | confirmed | check exit | violated invariant(s) | runs | note |", "|---|---|---|---|---|---|---|---|"]
for pid in sorted(os.listdir(sd)):
    mp = os.path.join(sd, pid, "meta.json")
    if not os.path.isfile(mp):
        continue
    meta = json.load(open(mp))
    conf = ""
    try:
        conf = open(os.path.join(sd, pid, "confirm.txt")).read().strip().splitlines()[-1]
    except OSError:
        pass
    r = rows.get(pid, {})
    meta["property"] = pid.split("-")[0]
    meta["confirmation"] = {"command": f"tools/seeded_confirm.sh {pid} ... (see confirm.txt)", "result": conf}
    prop = pid.split("-")[0]
    meta["check"] = {"command": f"tools/run_seeded.sh 60 1 {pid}  (= ./check {prop} quick against a scratch worktree with patch.diff applied)",
                     "exit": r.get("exit"), "violated_invariants": r.get("invariants"), "runs": r.get("runs"), "note": notes.get(pid, "")}
    json.dump(meta, open(mp, "w"), indent=1)
    esc = lambda s: str(s).replace("|", "\\|").replace("\n", " ")
    out.append(f"| {pid} | {esc(meta.get('summary',''))[:260]} | {esc(meta.get('needs_to_manifest',''))[:260]} | {'yes' if 'confirmed=yes' in conf else 'NO'} | {r.get('exit')} | {r.get('invariants')} | {r.get('runs')} | {esc(notes.get(pid,''))} |")
caught = sum(1 for r in rows.values() if r["exit"] == "1")
out += ["", f"{caught} of {len(rows)} caught by the check of the property they were written against."]
open(os.path.join(sd, "RESULTS.md"), "w").write("\n".join(out) + "\n")
print(f"{caught}/{len(rows)}")
