// Package core holds the deterministic primitives of the simulator: one PRNG, the recorded
// choice tape, the event log hash, and violation/stat records shared by all engines.
package core

import (
	"crypto/sha256"
	"encoding/binary"
	"encoding/hex"
	"fmt"
	"os"
	"sort"
	"strings"
	"time"
)

// ---------------------------------------------------------------------------------------------
// PRNG: splitmix64 seeding a xoshiro256**

type PRNG struct{ s [4]uint64 }

func splitmix(x *uint64) uint64 {
	*x += 0x9e3779b97f4a7c15
	z := *x
	z = (z ^ (z >> 30)) * 0xbf58476d1ce4e5b9
	z = (z ^ (z >> 27)) * 0x94d049bb133111eb
	return z ^ (z >> 31)
}

func NewPRNG(seed uint64) *PRNG {
	p := &PRNG{}
	x := seed
	for i := range p.s {
		p.s[i] = splitmix(&x)
	}
	return p
}

func rotl(x uint64, k uint) uint64 { return (x << k) | (x >> (64 - k)) }

func (p *PRNG) Uint64() uint64 {
	r := rotl(p.s[1]*5, 7) * 9
	t := p.s[1] << 17
	p.s[2] ^= p.s[0]
	p.s[3] ^= p.s[1]
	p.s[1] ^= p.s[2]
	p.s[0] ^= p.s[3]
	p.s[2] ^= t
	p.s[3] = rotl(p.s[3], 45)
	return r
}

// Mix derives a sub-seed from a base seed and labels.
func Mix(seed uint64, parts ...string) uint64 {
	h := sha256.New()
	var b [8]byte
	binary.BigEndian.PutUint64(b[:], seed)
	h.Write(b[:])
	for _, p := range parts {
		h.Write([]byte{0})
		h.Write([]byte(p))
	}
	return binary.BigEndian.Uint64(h.Sum(nil)[:8])
}

// ---------------------------------------------------------------------------------------------
// Choice tape

type Choice struct {
	L string `json:"l"` // label
	N uint64 `json:"n"` // number of alternatives (0 = full 64-bit)
	V uint64 `json:"v"` // value chosen
}

// Chooser is the single source of every decision in a run. In explore mode it draws from the
// PRNG and records; in replay mode it reads the tape (clamped), and returns 0 past its end.
type Chooser struct {
	rng    *PRNG
	replay bool
	in     []Choice
	pos    int
	Tape   []Choice
}

func NewExplorer(seed uint64) *Chooser { return &Chooser{rng: NewPRNG(seed)} }
func NewReplayer(tape []Choice) *Chooser {
	return &Chooser{replay: true, in: tape}
}

func (c *Chooser) draw(label string, n uint64) uint64 {
	var v uint64
	if c.replay {
		if c.pos < len(c.in) {
			v = c.in[c.pos].V
			c.pos++
		}
		if n > 0 && v >= n {
			v = n - 1
		}
	} else {
		v = c.rng.Uint64()
		if n > 0 {
			v %= n
		}
	}
	c.Tape = append(c.Tape, Choice{label, n, v})
	return v
}

// Intn returns a value in [0,n). 0 is by convention the most benign alternative.
func (c *Chooser) Intn(label string, n int) int {
	if n <= 1 {
		return 0
	}
	return int(c.draw(label, uint64(n)))
}

// Range returns a value in [lo,hi].
func (c *Chooser) Range(label string, lo, hi int) int {
	if hi <= lo {
		return lo
	}
	return lo + c.Intn(label, hi-lo+1)
}

// Bool is true with probability permille/1000. Tape value 0 means false.
func (c *Chooser) Bool(label string, permille int) bool {
	if permille <= 0 {
		return false
	}
	v := c.draw(label, 1000)
	// value 0 must be "false" (benign); map: true iff v > 1000-permille-1 ... keep 0 false
	return v >= uint64(1000-permille) && v != 0
}

// U64 returns a full-width value (used for key material and payload bytes).
func (c *Chooser) U64(label string) uint64 { return c.draw(label, 0) }

// Pick returns one of the candidates; index 0 first.
func (c *Chooser) Pick(label string, cands []uint64) uint64 {
	if len(cands) == 0 {
		return 0
	}
	return cands[c.Intn(label, len(cands))]
}

// Weighted picks index i with probability w[i]/sum. Index 0 is the benign choice.
func (c *Chooser) Weighted(label string, w []int) int {
	tot := 0
	for _, x := range w {
		tot += x
	}
	if tot <= 0 {
		return 0
	}
	v := c.Intn(label, tot)
	for i, x := range w {
		if v < x {
			return i
		}
		v -= x
	}
	return len(w) - 1
}

// Perm returns a permutation of 0..n-1 (identity when all tape values are 0).
func (c *Chooser) Perm(label string, n int) []int {
	p := make([]int, n)
	for i := range p {
		p[i] = i
	}
	for i := 0; i < n-1; i++ {
		j := i + c.Intn(label, n-i)
		p[i], p[j] = p[j], p[i]
	}
	return p
}

func (c *Chooser) Bytes(label string, n int) []byte {
	out := make([]byte, 0, n+8)
	for len(out) < n {
		var b [8]byte
		binary.BigEndian.PutUint64(b[:], c.U64(label))
		out = append(out, b[:]...)
	}
	return out[:n]
}

// ---------------------------------------------------------------------------------------------
// Event log: a rolling hash plus an optional human-readable rendering.

type Log struct {
	h       [32]byte
	N       int
	Keep    bool
	Lines   []string
	MaxKeep int
}

var liveLog = os.Getenv("VERIF_LIVE_LOG") != ""

func (l *Log) Add(format string, a ...any) {
	s := fmt.Sprintf(format, a...)
	hh := sha256.New()
	hh.Write(l.h[:])
	hh.Write([]byte(s))
	copy(l.h[:], hh.Sum(nil))
	l.N++
	if liveLog {
		fmt.Fprintf(os.Stderr, "[%s] %s\n", time.Now().Format("15:04:05.000"), s) // debugging aid only (VERIF_LIVE_LOG); never part of a check
	}
	if l.Keep && (l.MaxKeep == 0 || len(l.Lines) < l.MaxKeep) {
		l.Lines = append(l.Lines, s)
	}
}
func (l *Log) Hash() string { return hex.EncodeToString(l.h[:8]) }

// ---------------------------------------------------------------------------------------------
// Violations and per-run statistics

type Violation struct {
	Property  string `json:"property"`
	Invariant string `json:"invariant"` // stable name of the violated check
	Key       string `json:"key"`       // invariant + canonical trigger (for known findings)
	Detail    string `json:"detail"`
	Height    int64  `json:"height"`
}

func (v *Violation) Error() string {
	return fmt.Sprintf("%s/%s at height %d: %s", v.Property, v.Invariant, v.Height, v.Detail)
}

// Stats are counters accumulated in a run and merged across runs by the worker.
type Stats struct {
	Faults map[string]int64 `json:"faults"`
	Probes map[string]int64 `json:"probes"`
	Cover  map[string]bool  `json:"-"`
	// abstract trace of the property-relevant events of this run
	trace []string
	// Only/Cur scope Trace and Covered to the monitor of the checked property
	Only string `json:"-"`
	Cur  string `json:"-"`
}

func NewStats() *Stats {
	return &Stats{Faults: map[string]int64{}, Probes: map[string]int64{}, Cover: map[string]bool{}}
}
func (s *Stats) Fault(kind string)        { s.Faults[kind]++ }
func (s *Stats) Probe(name string)        { s.Probes[name]++ }
func (s *Stats) ProbeN(name string, n int) { s.Probes[name] += int64(n) }
func (s *Stats) scoped() bool { return s.Only == "" || s.Cur == s.Only }
func (s *Stats) Covered(key string) {
	if s.scoped() {
		s.Cover[key] = true
	}
}
func (s *Stats) Trace(ev string) {
	if s.scoped() {
		s.trace = append(s.trace, ev)
	}
}
func (s *Stats) TraceHash() string {
	h := sha256.Sum256([]byte(strings.Join(s.trace, "|")))
	return hex.EncodeToString(h[:8])
}
func (s *Stats) TraceSample(max int) []string {
	if len(s.trace) <= max {
		return append([]string(nil), s.trace...)
	}
	return append(append([]string(nil), s.trace[:max]...), fmt.Sprintf("... (+%d)", len(s.trace)-max))
}

func SortedKeys[V any](m map[string]V) []string {
	ks := make([]string, 0, len(m))
	for k := range m {
		ks = append(ks, k)
	}
	sort.Strings(ks)
	return ks
}

// Mix64Str is a short stable hash of a string (for abstract traces).
func Mix64Str(x string) string {
	h := sha256.Sum256([]byte(x))
	return hex.EncodeToString(h[:6])
}
