package core

import (
	"encoding/json"
	"strings"
	"fmt"
	"os"
	"path/filepath"
	"sort"
	"strconv"
	"syscall"
	"testing"
	"time"
)

type RunOpts struct {
	Prop     string
	Seed     uint64
	Tape     []Choice // non-nil: replay
	KeepLog  bool
	Thorough bool
	Scratch  string
	T        *testing.T
}

type RunResult struct {
	Seed       uint64     `json:"seed"`
	Prop       string     `json:"property"`
	Violation  *Violation `json:"violation,omitempty"`
	Halt       any        `json:"halt,omitempty"`
	Tape       []Choice   `json:"tape,omitempty"`
	LogHash    string     `json:"log_hash"`
	TraceHash  string     `json:"trace_hash"`
	NonTrivial bool       `json:"non_trivial"`
	Blocks     int64      `json:"blocks"`
	Txs        int64      `json:"txs"`
	SimSeconds float64    `json:"sim_seconds"`
	Stats      *Stats     `json:"stats"`
	Config     []string   `json:"config"`
	LogLines   []string   `json:"log,omitempty"`
	Trace      []string   `json:"trace,omitempty"`
	Err        string     `json:"error,omitempty"`
}

type Engine struct {
	Name string
	Run  func(o RunOpts) *RunResult
}

type ReplayFile struct {
	Engine    string     `json:"engine"`
	Property  string     `json:"property"`
	Seed      uint64     `json:"seed"`
	Thorough  bool       `json:"thorough"`
	Violation *Violation `json:"violation"`
	LogHash   string     `json:"log_hash"`
	Config    []string   `json:"config"`
	Tape      []Choice   `json:"tape"`
	TapeLenOriginal int  `json:"tape_len_original"`
	Schedule  []string   `json:"schedule"` // rendered minimised schedule and fault trace
	Trace     []string   `json:"trace"`
	BySeed    bool       `json:"by_seed,omitempty"` // the run killed its process: replay re-runs the seed (no tape could be saved)
}

type Sample struct {
	Seed   uint64   `json:"seed"`
	Config []string `json:"config"`
	Trace  []string `json:"trace"`
	Blocks int64    `json:"blocks"`
}

type FoundViolation struct {
	Violation *Violation `json:"violation"`
	Seed      uint64     `json:"seed"`
	Replay    string     `json:"replay"`
}

type WorkerOut struct {
	Engine       string            `json:"engine"`
	Property     string            `json:"property"`
	Worker       int               `json:"worker"`
	BaseSeed     uint64            `json:"base_seed"`
	Runs         int               `json:"runs"`
	NonTrivial   int               `json:"non_trivial_runs"`
	NTHashes     []string          `json:"nt_trace_hashes"`
	Blocks       int64             `json:"blocks"`
	Txs          int64             `json:"txs"`
	SimSeconds   float64           `json:"sim_seconds"`
	Faults       map[string]int64  `json:"faults"`
	Probes       map[string]int64  `json:"probes"`
	Cover        []string          `json:"cover"`
	Samples      []Sample          `json:"samples"`
	Violations   []FoundViolation  `json:"violations"`
	Known        map[string]int    `json:"known"`
	RunHashes    map[string]string `json:"run_hashes"` // seed -> log hash (determinism self-test)
	WallS        float64           `json:"wall_s"`
	Errors       []string          `json:"errors"`
	Restarts     int               `json:"restarts"` // times the worker replaced its own process image to give memory back
	NextRun      int               `json:"next_run"`
}

// residentBytes is the process's resident set size (the Go heap and what cgo libraries hold), 0 if it cannot be read.
func residentBytes() uint64 {
	bz, err := os.ReadFile("/proc/self/statm")
	if err != nil {
		return 0
	}
	f := strings.Fields(string(bz))
	if len(f) < 2 {
		return 0
	}
	pages, _ := strconv.ParseUint(f[1], 10, 64)
	return pages * uint64(os.Getpagesize())
}

func envInt(k string, def int64) int64 {
	if v := os.Getenv(k); v != "" {
		if n, err := strconv.ParseInt(v, 10, 64); err == nil {
			return n
		}
	}
	return def
}
func envU64(k string, def uint64) uint64 {
	if v := os.Getenv(k); v != "" {
		if n, err := strconv.ParseUint(v, 10, 64); err == nil {
			return n
		}
	}
	return def
}

// WorkerMain implements the protocol between the python driver and a worker process.
func WorkerMain(t *testing.T, eng Engine) {
	mode := os.Getenv("VERIF_MODE")
	if mode == "" {
		t.Skip("VERIF_MODE not set (worker entry point)")
	}
	scratch := os.Getenv("VERIF_SCRATCH")
	if scratch == "" {
		scratch = t.TempDir()
	}
	out := os.Getenv("VERIF_OUT")
	switch mode {
	case "replay":
		var rf ReplayFile
		bz, err := os.ReadFile(os.Getenv("VERIF_REPLAY"))
		if err != nil {
			t.Fatal(err)
		}
		if err := json.Unmarshal(bz, &rf); err != nil {
			t.Fatal(err)
		}
		tape := rf.Tape
		if tape == nil && !rf.BySeed {
			tape = []Choice{}
		}
		res := eng.Run(RunOpts{Prop: rf.Property, Seed: rf.Seed, Tape: tape, KeepLog: true, Thorough: rf.Thorough, Scratch: scratch, T: t})
		writeJSON(out, res)
	case "explore":
		explore(t, eng, scratch, out)
	default:
		t.Fatalf("unknown VERIF_MODE %q", mode)
	}
}

func writeJSON(path string, v any) {
	bz, err := json.MarshalIndent(v, "", " ")
	if err != nil {
		panic(err)
	}
	if path == "" {
		fmt.Println(string(bz))
		return
	}
	tmp := path + ".tmp"
	if err := os.WriteFile(tmp, bz, 0o644); err != nil {
		panic(err)
	}
	os.Rename(tmp, path)
}

type knownFile struct {
	Findings []struct {
		Property string `json:"property"`
		Key      string `json:"key"`
		Status   string `json:"status"`
	} `json:"findings"`
}

func explore(t *testing.T, eng Engine, scratch, out string) {
	prop := os.Getenv("VERIF_PROP")
	base := envU64("VERIF_SEED", 1)
	worker := int(envInt("VERIF_WORKER", 0))
	budget := time.Duration(envInt("VERIF_BUDGET_S", 30)) * time.Second
	minBudget := time.Duration(envInt("VERIF_MIN_S", 45)) * time.Second
	maxRuns := int(envInt("VERIF_MAX_RUNS", 1<<30))
	thorough := os.Getenv("VERIF_TIER") == "thorough"
	replayDir := os.Getenv("VERIF_REPLAY_DIR")
	recordHashes := os.Getenv("VERIF_RECORD_HASHES") != ""
	known := map[string]bool{}
	if p := os.Getenv("VERIF_KNOWN"); p != "" {
		if bz, err := os.ReadFile(p); err == nil {
			var kf knownFile
			if json.Unmarshal(bz, &kf) == nil {
				for _, f := range kf.Findings {
					if f.Status == "open" {
						known[f.Key] = true
					}
				}
			}
		}
	}
	wo := &WorkerOut{Engine: eng.Name, Property: prop, Worker: worker, BaseSeed: base, Faults: map[string]int64{}, Probes: map[string]int64{},
		Known: map[string]int{}, RunHashes: map[string]string{}}
	cover := map[string]bool{}
	nt := map[string]bool{}
	start := time.Now()
	k0 := 0
	// Memory: every run builds whole applications, and some of what a finished run leaves behind (goroutines of a daemon that is
	// parked for good, caches of the wasm VM) is never given back. Long batches would grow until the kernel kills the process, so
	// a worker that has grown past the limit writes its totals, replaces its own process image (exec of the same binary, same
	// pid, same output files) and continues its seed sequence where it stopped. Which seeds are run does not change.
	memLimit := uint64(envInt("VERIF_MEM_LIMIT_MB", 2500)) << 20
	if os.Getenv("VERIF_RESUME") == "1" {
		if bz, err := os.ReadFile(out); err == nil {
			var prev WorkerOut
			if json.Unmarshal(bz, &prev) == nil && prev.Property == prop && prev.Worker == worker {
				wo = &prev
				if wo.Faults == nil {
					wo.Faults = map[string]int64{}
				}
				if wo.Probes == nil {
					wo.Probes = map[string]int64{}
				}
				if wo.Known == nil {
					wo.Known = map[string]int{}
				}
				if wo.RunHashes == nil {
					wo.RunHashes = map[string]string{}
				}
				for _, c := range wo.Cover {
					cover[c] = true
				}
				for _, h := range wo.NTHashes {
					nt[h] = true
				}
				k0 = wo.NextRun
				start = time.Now().Add(-time.Duration(wo.WallS * float64(time.Second)))
			}
		}
	}
	flush := func() {
		wo.WallS = time.Since(start).Seconds()
		wo.Cover = SortedKeys(cover)
		wo.NTHashes = SortedKeys(nt)
		writeJSON(out, wo)
	}
	for k := k0; k < maxRuns && time.Since(start) < budget; k++ {
		if k > k0 && k%16 == 0 && !recordHashes {
			if residentBytes() > memLimit {
				wo.Restarts++
				wo.NextRun = k
				flush()
				env := append(os.Environ(), "VERIF_RESUME=1")
				if err := syscall.Exec("/proc/self/exe", os.Args, env); err != nil {
					wo.Errors = append(wo.Errors, "re-exec failed: "+err.Error())
					break
				}
			}
		}
		seed := Mix(base, prop, strconv.Itoa(worker), strconv.Itoa(k))
		if recordHashes {
			seed = Mix(base, prop, "det", strconv.Itoa(k)) // same seeds in every worker: determinism self-test
		}
		// marker: if this run kills the process (a panic in a daemon goroutine), the driver knows which seed did it
		writeJSON(out+".cur", map[string]any{"seed": seed, "property": prop, "engine": eng.Name, "thorough": thorough})
		dump := os.Getenv("VERIF_DUMP_LOG")
		res := eng.Run(RunOpts{Prop: prop, Seed: seed, Thorough: thorough, Scratch: scratch, T: t, KeepLog: dump != ""})
		if dump != "" {
			os.MkdirAll(dump, 0o755)
			os.WriteFile(filepath.Join(dump, fmt.Sprintf("%d.log", seed)), []byte(strings.Join(res.LogLines, "\n")), 0o644)
		}
		os.Remove(out + ".cur")
		wo.Runs++
		wo.Blocks += res.Blocks
		wo.Txs += res.Txs
		wo.SimSeconds += res.SimSeconds
		if res.Stats != nil {
			for f, n := range res.Stats.Faults {
				wo.Faults[f] += n
			}
			for f, n := range res.Stats.Probes {
				wo.Probes[f] += n
			}
			for c := range res.Stats.Cover {
				cover[c] = true
			}
		}
		if recordHashes {
			wo.RunHashes[strconv.FormatUint(seed, 10)] = res.LogHash
		}
		if res.Err != "" {
			wo.Errors = append(wo.Errors, fmt.Sprintf("seed %d: %s", seed, res.Err))
			if len(wo.Errors) > 3 {
				break
			}
			continue
		}
		if res.NonTrivial {
			wo.NonTrivial++
			nt[res.TraceHash] = true
			if len(wo.Samples) < 2 {
				wo.Samples = append(wo.Samples, Sample{Seed: seed, Config: res.Config, Trace: res.Trace, Blocks: res.Blocks})
			}
		}
		if v := res.Violation; v != nil {
			if known[v.Key] {
				wo.Known[v.Key]++
				continue
			}
			// minimise, write replay file, stop this worker
			rf := Minimise(eng, res, thorough, scratch, minBudget, t)
			path := filepath.Join(replayDir, fmt.Sprintf("%s-%d.json", prop, seed))
			os.MkdirAll(replayDir, 0o755)
			writeJSON(path, rf)
			wo.Violations = append(wo.Violations, FoundViolation{Violation: rf.Violation, Seed: seed, Replay: path})
			break
		}
		if k%8 == 7 {
			flush()
		}
	}
	flush()
}

// Minimise shrinks the tape of a failing run while the same property+invariant keeps failing.
func Minimise(eng Engine, res *RunResult, thorough bool, scratch string, budget time.Duration, t *testing.T) *ReplayFile {
	deadline := time.Now().Add(budget)
	best := res
	origLen := len(res.Tape)
	same := func(r *RunResult) bool {
		return r.Err == "" && r.Violation != nil && r.Violation.Property == res.Violation.Property && r.Violation.Invariant == res.Violation.Invariant
	}
	nondet := res.Violation.Invariant == "replica_divergence" || res.Violation.Invariant == "selection_differs_between_replicas"
	try := func(tape []Choice) bool {
		if time.Now().After(deadline) {
			return false
		}
		r := eng.Run(RunOpts{Prop: res.Prop, Seed: res.Seed, Tape: tape, Thorough: thorough, Scratch: scratch, T: t})
		if nondet && same(r) {
			// a disagreement between replicas comes from nondeterminism inside the system under test and shows only with some
			// probability: a shrunk tape is kept only if it shows it three times in a row, so that the replay file keeps a
			// history in which the disagreement is likely
			for i := 0; i < 2 && same(r); i++ {
				r = eng.Run(RunOpts{Prop: res.Prop, Seed: res.Seed, Tape: tape, Thorough: thorough, Scratch: scratch, T: t})
			}
		}
		if same(r) && len(r.Tape) <= len(best.Tape)+0 {
			best = r
			return true
		}
		return false
	}
	// first: confirm that replaying the recorded tape reproduces (determinism); if not, keep original
	if !try(append([]Choice{}, res.Tape...)) {
		best = res
	} else {
		// 1. truncate tail (binary search on prefix length)
		lo, hi := 0, len(best.Tape)
		for lo < hi && time.Now().Before(deadline) {
			mid := (lo + hi) / 2
			if try(append([]Choice{}, best.Tape[:mid]...)) {
				hi = len(best.Tape)
				if hi > mid {
					hi = mid
				}
			} else {
				lo = mid + 1
			}
		}
		// 2. zero whole label groups (switches off entire fault classes / actors)
		{
			counts := map[string]int{}
			for _, c := range best.Tape {
				if c.V != 0 {
					counts[c.L]++
				}
			}
			labels := SortedKeys(counts)
			sort.SliceStable(labels, func(i, j int) bool { return counts[labels[i]] > counts[labels[j]] })
			for _, l := range labels {
				if time.Now().After(deadline) {
					break
				}
				cand := append([]Choice{}, best.Tape...)
				for j := range cand {
					if cand[j].L == l {
						cand[j].V = 0
					}
				}
				try(cand)
			}
		}
		// 3. zero chunks, then delete chunks
		for pass := 0; pass < 2; pass++ {
			for size := len(best.Tape) / 2; size >= 1 && time.Now().Before(deadline); size /= 2 {
				for i := 0; i+size <= len(best.Tape) && time.Now().Before(deadline); i += size {
					var cand []Choice
					if pass == 0 {
						allZero := true
						for _, c := range best.Tape[i : i+size] {
							if c.V != 0 {
								allZero = false
							}
						}
						if allZero {
							continue
						}
						cand = append([]Choice{}, best.Tape...)
						for j := i; j < i+size; j++ {
							cand[j].V = 0
						}
					} else {
						cand = append(append([]Choice{}, best.Tape[:i]...), best.Tape[i+size:]...)
					}
					try(cand)
				}
			}
		}
		// 4. lower individual values
		for i := 0; i < len(best.Tape) && time.Now().Before(deadline); i++ {
			if best.Tape[i].V == 0 {
				continue
			}
			cand := append([]Choice{}, best.Tape...)
			cand[i].V /= 2
			try(cand)
		}
	}
	// final rendering run with the log kept
	final := eng.Run(RunOpts{Prop: res.Prop, Seed: res.Seed, Tape: append([]Choice{}, best.Tape...), KeepLog: true, Thorough: thorough, Scratch: scratch, T: t})
	if !same(final) {
		final = best
	}
	// strip trailing zero choices (past-the-end reads return 0 anyway)
	tape := final.Tape
	for len(tape) > 0 && tape[len(tape)-1].V == 0 {
		tape = tape[:len(tape)-1]
	}
	return &ReplayFile{Engine: eng.Name, Property: res.Prop, Seed: res.Seed, Thorough: thorough, Violation: final.Violation, LogHash: final.LogHash,
		Config: final.Config, Tape: tape, TapeLenOriginal: origLen, Schedule: final.LogLines, Trace: final.Trace}
}

func SortedInts(m map[int]bool) []int {
	o := make([]int, 0, len(m))
	for k := range m {
		o = append(o, k)
	}
	sort.Ints(o)
	return o
}
