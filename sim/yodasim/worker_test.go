package yodasim

import (
	"runtime"
	"testing"

	"verifsim/core"
)

func TestWorker(t *testing.T) {
	// one P: goroutines of the daemon never run in parallel, so the order in which they reach the stubs is a function of the
	// releases the tape chose (asynchronous preemption is switched off by the driver through GODEBUG)
	runtime.GOMAXPROCS(1)
	core.WorkerMain(t, core.Engine{Name: "yodasim", Run: func(o core.RunOpts) *core.RunResult {
		var res *core.RunResult
		o.T.Run("run", func(t *testing.T) {
			o2 := o
			o2.T = t
			res = RunOne(o2)
		})
		return res
	}})
}
