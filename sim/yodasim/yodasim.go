// Package yodasim runs the REAL yoda request handler (handleTransaction -> handleRequest -> handleRawRequest goroutines)
// inside a testing/synctest bubble over a stub RPC node and a stub executor. Every stub call parks; a seeded scheduler
// releases exactly one parked call at a time, so goroutine interleavings are decided by the tape and replay exactly.
package yodasim

import (
	"crypto/sha256"
	"context"
	"runtime"
	"strconv"
	"errors"
	"fmt"
	"os"
	"path/filepath"
	"sort"
	"strings"
	"sync"
	"testing"
	"testing/synctest"
	"time"

	abci "github.com/cometbft/cometbft/abci/types"
	cmtbytes "github.com/cometbft/cometbft/libs/bytes"
	rpcclient "github.com/cometbft/cometbft/rpc/client"
	coretypes "github.com/cometbft/cometbft/rpc/core/types"

	"github.com/cosmos/cosmos-sdk/crypto/hd"
	"github.com/cosmos/cosmos-sdk/crypto/keyring"
	sdk "github.com/cosmos/cosmos-sdk/types"

	"github.com/bandprotocol/chain/v3/pkg/obi"
	"github.com/bandprotocol/chain/v3/testing/testdata"
	oracletypes "github.com/bandprotocol/chain/v3/x/oracle/types"
	"github.com/bandprotocol/chain/v3/yoda"
	"github.com/bandprotocol/chain/v3/yoda/executor"

	"verifsim/chainsim"
	"verifsim/core"
	"verifsim/world"
)

// ---------------------------------------------------------------------------------------------
// scheduler

type gate struct {
	label   string
	goid    uint64
	release chan struct{}
}

func goid() uint64 {
	var buf [64]byte
	n := runtime.Stack(buf[:], false)
	// "goroutine 123 [running]:"
	f := strings.Fields(string(buf[:n]))
	if len(f) < 2 {
		return 0
	}
	id, _ := strconv.ParseUint(f[1], 10, 64)
	return id
}

type sched struct {
	mu     sync.Mutex
	parked []*gate
	ch     *core.Chooser
	lg     *core.Log
	orders int
	seq    []string
	arrivals map[string]int
	tick     int64
}

func (s *sched) park(label string) {
	g := &gate{label: label, release: make(chan struct{})}
	s.mu.Lock()
	// gates with the same label are ordered by the creation order of their goroutines (goroutine ids grow in creation
	// order, and creation order is program order of the released goroutine) - not by arrival, which file I/O can perturb
	g.goid = goid()
	s.parked = append(s.parked, g)
	s.mu.Unlock()
	<-g.release
	// every stub call returns at its own simulated instant, so the daemon's own timers (retry sleeps) never tie and goroutines
	// that wake from them run in a defined order
	s.mu.Lock()
	s.tick++
	d := time.Duration(s.tick) * time.Nanosecond
	s.mu.Unlock()
	time.Sleep(d)
}

// run releases parked calls one at a time until nothing parks for `idle` consecutive simulated seconds.
func (s *sched) run(idle int) {
	quiet := 0
	for quiet < idle {
		synctest.Wait()
		s.mu.Lock()
		n := len(s.parked)
		if n == 0 {
			s.mu.Unlock()
			quiet++
			time.Sleep(time.Second) // fake clock: lets sleeping retries proceed
			continue
		}
		quiet = 0
		sort.SliceStable(s.parked, func(i, j int) bool {
			if s.parked[i].label != s.parked[j].label {
				return s.parked[i].label < s.parked[j].label
			}
			return s.parked[i].goid < s.parked[j].goid
		})
		i := s.ch.Intn("sched", n)
		g := s.parked[i]
		s.parked = append(s.parked[:i], s.parked[i+1:]...)
		s.mu.Unlock()
		if n > 1 {
			s.orders++
		}
		s.lg.Add("release %s (of %d)", g.label, n)
		s.seq = append(s.seq, g.label)
		close(g.release)
	}
}

// ---------------------------------------------------------------------------------------------
// stubs

type rpcStub struct {
	rpcclient.Client
	s       *sched
	table   map[string][]byte // path|data -> value
	mu      sync.Mutex
	fails   map[string]int // remaining injected failures per key
	persist map[string]bool
	slow    map[string]time.Duration
	st      *core.Stats
}

func (r *rpcStub) ABCIQuery(_ context.Context, path string, data cmtbytes.HexBytes) (*coretypes.ResultABCIQuery, error) {
	key := path + "|" + string(data)
	r.s.park("rpc:" + path + ":" + fmt.Sprintf("%x", []byte(data)))
	r.mu.Lock()
	persist := r.persist[key]
	n := r.fails[key]
	if n > 0 {
		r.fails[key] = n - 1
	}
	d := r.slow[key]
	r.mu.Unlock()
	if d > 0 {
		time.Sleep(d)
		// several sleepers may wake at the same simulated instant: the tape decides who continues first
		r.s.park("rpc-wake:" + path + ":" + fmt.Sprintf("%x", []byte(data)))
	}
	if persist {
		r.st.Fault("rpc_persistent_failure")
		return nil, errors.New("injected: node unreachable")
	}
	if n > 0 {
		r.st.Fault("rpc_transient_error")
		return nil, errors.New("injected: transient rpc error")
	}
	return &coretypes.ResultABCIQuery{Response: abci.ResponseQuery{Value: r.table[key]}}, nil
}

func execTag(exec []byte) []byte {
	h := sha256.Sum256(exec)
	return []byte(fmt.Sprintf("#%x", h[:4]))
}

type execOutcome struct {
	Kind   string // ok, nonzero, error, slow
	Code   uint32
	Output []byte
	PadTo  int // >0: the data source prints at least this much and the executor caps it there (as the real executors do at the report size limit)
}

// finalOutput is what the stub executor returns for the outcome when it runs the given executable.
func finalOutput(o execOutcome, exec []byte) []byte {
	out := append(append([]byte{}, o.Output...), execTag(exec)...)
	for len(out) < o.PadTo {
		out = append(out, 'x')
	}
	return out
}

type execStub struct {
	s        *sched
	mu       sync.Mutex
	plan     map[string]execOutcome // "calldata-marker" -> outcome, keyed by request id / external id from env
	calls    map[string]int
	st       *core.Stats
}

func (x *execStub) Exec(exec []byte, arg string, env interface{}) (executor.ExecResult, error) {
	m := env.(map[string]interface{})
	key := fmt.Sprintf("%v/%v", m["BAND_REQUEST_ID"], m["BAND_EXTERNAL_ID"])
	x.s.park("exec:" + key)
	x.mu.Lock()
	x.calls[key]++
	o := x.plan[key]
	x.mu.Unlock()
	switch o.Kind {
	case "error":
		x.st.Fault("executor_error")
		return executor.ExecResult{}, errors.New("injected: executor failed")
	case "slow":
		x.st.Fault("executor_slow")
		time.Sleep(40 * time.Second)
		x.s.park("exec-wake:" + key)
	case "nonzero":
		x.st.Fault("executor_nonzero_exit")
	}
	// the output names the executable that was actually run
	return executor.ExecResult{Output: finalOutput(o, exec), Code: o.Code, Version: "v1"}, nil
}

// ---------------------------------------------------------------------------------------------

type reqInfo struct {
	ID       uint64
	Chosen   bool
	Stored   oracletypes.Request
	Tx       abci.TxResult
	FetchBad map[uint64]bool // external id -> executable cannot be fetched
	Exec     map[uint64][]byte // external id -> the executable its data source has while the request is handled
	ReportedBefore bool // the validator's report for this request was accepted by the chain before the daemon (re)started
	Earlier        bool // the request was made before the daemon (re)started
}

// RunOne: chain part outside the bubble, daemon part inside.
func RunOne(o core.RunOpts) (res *core.RunResult) {
	var ch *core.Chooser
	if o.Tape != nil {
		ch = core.NewReplayer(o.Tape)
	} else {
		ch = core.NewExplorer(o.Seed)
	}
	lg := &core.Log{Keep: o.KeepLog, MaxKeep: 3000}
	st := core.NewStats()
	res = &core.RunResult{Seed: o.Seed, Prop: o.Prop, Stats: st}
	scratch, err := os.MkdirTemp(o.Scratch, "yrun")
	if err != nil {
		res.Err = err.Error()
		return res
	}
	defer os.RemoveAll(scratch)
	var viol *core.Violation
	fail := func(inv, trig, format string, a ...any) {
		if viol == nil {
			key := "C19/" + inv
			if trig != "" {
				key += "/" + trig
			}
			viol = &core.Violation{Property: "C19", Invariant: inv, Key: key, Detail: fmt.Sprintf(format, a...)}
			lg.Add("VIOLATION %s: %s", key, viol.Detail)
		}
	}
	var w *world.World
	defer func() {
		if r := recover(); r != nil {
			res.Err = fmt.Sprintf("harness panic: %v", r)
		}
		res.Tape = ch.Tape
		res.LogHash = lg.Hash()
		res.LogLines = lg.Lines
		res.TraceHash = st.TraceHash()
		res.Trace = st.TraceSample(60)
		res.Violation = viol
		if w != nil {
			res.Blocks = w.Height
			res.Txs = w.TxCount
			w.Close()
		}
	}()

	// ---- chain part --------------------------------------------------------------------------
	nv := 1 + ch.Intn("cfg.nvals", 4)
	tokens := make([]int64, nv)
	for i := range tokens {
		tokens[i] = 100_000_000
	}
	op := oracletypes.DefaultParams()
	op.MaxRawRequestCount = 8
	op.ExpirationBlockCount = 50
	lens := []int{1, 5, 31, 32, 33, 200, 2, 64}
	var dss []chainsim.DSSpec
	treas := world.NewAccount(o.Seed, "treasury")
	nds := 3 + ch.Intn("cfg.nds", 4)
	var execs [][]byte
	for i := 0; i < nds; i++ {
		l := lens[ch.Intn("cfg.dslen", len(lens))]
		ex := []byte(strings.Repeat(string(rune('a'+i)), l))
		execs = append(execs, ex)
		dss = append(dss, chainsim.DSSpec{Fee: sdk.NewCoins(), Treasury: treas, Exec: ex})
	}
	cfg := world.Config{Seed: o.Seed, ChainID: "simband", ValTokens: tokens, NumUsers: 3, Replicas: 1, GenesisTime: chainsim.BaseTime,
		GenesisMods: []func(*world.World, chainsim.GenesisState){chainsim.QuietEconomy(), chainsim.OracleGenesis(op, dss)}}
	w, err = world.New(ch, lg, st, cfg, scratch)
	if err != nil {
		res.Err = "setup: " + err.Error()
		return res
	}
	for _, v := range w.Vals {
		w.Submit(&world.Intent{Signer: v.Account, Msgs: []sdk.Msg{oracletypes.NewMsgActivate(v.Val)}, Tag: "activate"})
	}
	w.NextBlock(world.BlockOpts{})
	w.NextBlock(world.BlockOpts{})
	me := w.Vals[0]
	// createBatch submits n data requests and returns those the chain accepted
	nAll := 0
	createBatch := func(n int, forceDS int64) []*reqInfo {
		var batchMsgs []sdk.Msg
		for i := 0; i < n; i++ {
			k := 1 + ch.Intn("req.nraw", 8)
			ids := make([]int64, k)
			for j := range ids {
				ids[j] = int64(1 + ch.Intn("req.ds", nds))
			}
			if forceDS > 0 {
				ids[ch.Intn("req.forceds", k)] = forceDS
			}
			ask := uint64(1 + ch.Intn("req.ask", nv))
			calldata := obi.MustEncode(testdata.Wasm4Input{IDs: ids, Calldata: fmt.Sprintf("cd%d", nAll)})
			msg := oracletypes.NewMsgRequestData(oracletypes.OracleScriptID(chainsim.ScriptEcho), calldata, ask, 1, fmt.Sprintf("c%d", nAll), sdk.NewCoins(), 1_000_000, 3_000_000, w.Users[0].Addr, oracletypes.ENCODER_UNSPECIFIED)
			nAll++
			// one transaction may carry several requests (a batch): every one of them is a request of its own for the daemon
			batchMsgs = append(batchMsgs, msg)
			if i == n-1 || !ch.Bool("req.sametx", 300) {
				if len(batchMsgs) > 1 {
					st.Fault("several_requests_in_one_transaction")
				}
				w.Submit(&world.Intent{Signer: w.Users[0], Msgs: batchMsgs, Tag: "request", Gas: uint64(5_000_000 * len(batchMsgs))})
				batchMsgs = nil
			}
		}
		var out []*reqInfo
		for b := 0; b < 2; b++ {
			blk := w.NextBlock(world.BlockOpts{})
			if w.Halt != nil {
				return out
			}
			ctx := w.ReadCtx()
			for _, tx := range blk.Txs {
				if tx.Intent.Tag != "request" || !tx.OK() {
					continue
				}
				for _, ev := range chainsim.EventsOfType(chainsim.ParseEvents(tx.Result.Events), oracletypes.EventTypeRequest) {
					id := ev.U64(oracletypes.AttributeKeyID)
					stored, err := w.Primary().OracleKeeper.GetRequest(ctx, oracletypes.RequestID(id))
					if err != nil {
						continue
					}
					ri := &reqInfo{ID: id, Stored: stored, Tx: abci.TxResult{Height: blk.Height, Index: uint32(tx.Index), Tx: tx.Bytes, Result: *tx.Result}, FetchBad: map[uint64]bool{}, Exec: map[uint64][]byte{}}
					for _, v := range stored.RequestedValidators {
						if v == me.Val.String() {
							ri.Chosen = true
						}
					}
					out = append(out, ri)
				}
			}
		}
		return out
	}
	// optional: the daemon is RE-started. Requests were made while an earlier incarnation ran; for some of them that incarnation's
	// report is already on chain. The new incarnation learns what is still open from the node's PendingRequests query (below).
	var reqs0 []*reqInfo
	if ch.Bool("cfg.restart", 250) {
		reqs0 = createBatch(1+ch.Intn("cfg.nreq0", 3), 0)
		for _, ri := range reqs0 {
			ri.Earlier = true
			if !ri.Chosen || !ch.Bool("restart.reported", 600) {
				continue
			}
			var raws []oracletypes.RawReport
			for _, rr := range ri.Stored.RawRequests {
				raws = append(raws, oracletypes.NewRawReport(rr.ExternalID, 0, []byte("earlier")))
			}
			w.Submit(&world.Intent{Signer: me.Account, Msgs: []sdk.Msg{oracletypes.NewMsgReportData(oracletypes.RequestID(ri.ID), raws, me.Val)}, Tag: "earlier_report"})
			blk := w.NextBlock(world.BlockOpts{})
			for _, tx := range blk.Txs {
				if tx.Intent.Tag == "earlier_report" && tx.OK() {
					ri.ReportedBefore = true
					st.Fault("request_already_reported_before_daemon_restart")
				}
			}
		}
	}
	reqs := createBatch(1+ch.Intn("cfg.nreq", 4), 0)
	if w.Halt != nil {
		res.Err = "chain halted during setup: " + w.Halt.Err
		return res
	}
	// query table the stub node answers from (computed with the real application at the time the batch exists)
	app := w.Primary()
	storePath := fmt.Sprintf("/store/%s/key", oracletypes.StoreKey)
	dsHash := map[uint64]string{}
	curExec := map[uint64][]byte{}
	for i, ex := range execs {
		curExec[uint64(i+1)] = ex
	}
	buildTable := func(batch []*reqInfo, into map[string][]byte) {
		q := func(path string, data []byte) {
			r, err := app.Query(context.Background(), &abci.RequestQuery{Path: path, Data: data})
			if err == nil {
				into[path+"|"+string(data)] = r.Value
			}
		}
		for _, ri := range batch {
			q(storePath, oracletypes.RequestStoreKey(oracletypes.RequestID(ri.ID)))
			for _, rr := range ri.Stored.RawRequests {
				q(storePath, oracletypes.DataSourceStoreKey(rr.DataSourceID))
				ds, err := app.OracleKeeper.GetDataSource(w.ReadCtx(), rr.DataSourceID)
				if err == nil {
					dsHash[uint64(rr.DataSourceID)] = ds.Filename
					bz := app.AppCodec().MustMarshal(&oracletypes.QueryDataRequest{DataHash: ds.Filename})
					q("/band.oracle.v1.Query/Data", bz)
				}
				// the executable the data source has while this batch is handled
				ri.Exec[uint64(rr.ExternalID)] = curExec[uint64(rr.DataSourceID)]
			}
		}
	}
	table := map[string][]byte{}
	buildTable(reqs, table)
	buildTable(reqs0, table)
	// what the node answers to the daemon's start-up question "which requests are still waiting for this validator?"
	var startupPending []uint64
	if len(reqs0) > 0 {
		bz := app.AppCodec().MustMarshal(&oracletypes.QueryPendingRequestsRequest{ValidatorAddress: me.Val.String()})
		if r, err := app.Query(context.Background(), &abci.RequestQuery{Path: "/band.oracle.v1.Query/PendingRequests", Data: bz}); err == nil && r.Code == 0 {
			var resp oracletypes.QueryPendingRequestsResponse
			if app.AppCodec().Unmarshal(r.Value, &resp) == nil {
				earlier := map[uint64]bool{}
				for _, ri := range reqs0 {
					earlier[ri.ID] = true
				}
				for _, id := range resp.RequestIDs {
					if earlier[id] {
						startupPending = append(startupPending, id)
					}
				}
			}
		}
	}
	// optional second phase: the owner replaces the executable of a data source the first batch used, then new requests use it
	var reqs2 []*reqInfo
	var table2 map[string][]byte
	editedDS := uint64(0)
	if len(reqs) > 0 && len(reqs0) == 0 && ch.Bool("cfg.editphase", 250) {
		r0 := reqs[ch.Intn("edit.req", len(reqs))]
		dsid := r0.Stored.RawRequests[ch.Intn("edit.raw", len(r0.Stored.RawRequests))].DataSourceID
		newExec := []byte(strings.Repeat("Z", 3+ch.Intn("edit.len", 60)) + fmt.Sprint(dsid))
		ds, _ := app.OracleKeeper.GetDataSource(w.ReadCtx(), dsid)
		edit := oracletypes.NewMsgEditDataSource(dsid, ds.Name, ds.Description, newExec, ds.Fee, sdk.MustAccAddressFromBech32(ds.Treasury), w.Users[0].Addr, w.Users[0].Addr)
		w.Submit(&world.Intent{Signer: w.Users[0], Msgs: []sdk.Msg{edit}, Tag: "edit_data_source", Gas: 2_000_000})
		blk := w.NextBlock(world.BlockOpts{})
		edited := false
		for _, tx := range blk.Txs {
			if tx.Intent.Tag == "edit_data_source" && tx.OK() {
				edited = true
			}
		}
		if edited {
			curExec[uint64(dsid)] = newExec
			editedDS = uint64(dsid)
			st.Fault("data_source_executable_replaced_between_requests")
			reqs2 = createBatch(1+ch.Intn("cfg.nreq2", 2), int64(dsid))
			table2 = map[string][]byte{}
			for k, v := range table {
				table2[k] = v
			}
			buildTable(reqs2, table2)
			buildTable(reqs, map[string][]byte{}) // no-op for the table; keeps batch 1 expectations at the OLD executable
			for _, ri := range reqs {
				for _, rr := range ri.Stored.RawRequests {
					if rr.DataSourceID == dsid {
						ri.Exec[uint64(rr.ExternalID)] = execs[int(dsid)-1]
					}
				}
			}
		}
	}
	if len(reqs) == 0 {
		return res
	}
	allReqs := append(append(append([]*reqInfo{}, reqs0...), reqs...), reqs2...)

	// ---- daemon part, inside the bubble ------------------------------------------------------
	maxTry := uint64(2 + ch.Intn("cfg.maxtry", 4))
	s := &sched{ch: ch, lg: lg, arrivals: map[string]int{}}
	rpc := &rpcStub{s: s, table: table, fails: map[string]int{}, persist: map[string]bool{}, slow: map[string]time.Duration{}, st: st}
	ex := &execStub{s: s, plan: map[string]execOutcome{}, calls: map[string]int{}, st: st}
	faulty := ch.Bool("cfg.faults", 700)
	// fault plan
	maxReport := int(app.OracleKeeper.GetParams(w.ReadCtx()).MaxReportDataSize)
	for _, ri := range allReqs {
		for _, rr := range ri.Stored.RawRequests {
			key := fmt.Sprintf("%d/%d", ri.ID, rr.ExternalID)
			o := execOutcome{Kind: "ok", Code: 0, Output: []byte(fmt.Sprintf("out-%d-%d", ri.ID, rr.ExternalID))}
			if faulty {
				switch ch.Weighted("exec.outcome", []int{60, 15, 15, 10}) {
				case 1:
					o = execOutcome{Kind: "nonzero", Code: uint32(1 + ch.Intn("exec.code", 200)), Output: []byte("err")}
				case 2:
					o = execOutcome{Kind: "error"}
				case 3:
					o.Kind = "slow"
				}
			}
			// a talkative data source: the executor caps the output at the chain's report size limit, so the raw report is exactly that long
			if o.Kind != "error" && ch.Bool("exec.capped", 150) {
				o.PadTo = maxReport
				st.Fault("executor_output_capped_at_report_size_limit")
			}
			ex.plan[key] = o
		}
	}
	if faulty {
		keysFrom := table
		if table2 != nil {
			keysFrom = table2
		}
		for _, k := range core.SortedKeys(keysFrom) {
			if ch.Bool("rpc.transient", 200) {
				rpc.fails[k] = 1 + ch.Intn("rpc.transient.n", int(maxTry)-1) // fewer than maxTry in a row
			}
			if ch.Bool("rpc.slow", 100) {
				rpc.slow[k] = time.Duration(1+ch.Intn("rpc.slow.s", 20)) * time.Second
			}
		}
		// persistent failure only for executable fetches
		var dsIDs []uint64
		for id := range dsHash {
			dsIDs = append(dsIDs, id)
		}
		sort.Slice(dsIDs, func(i, j int) bool { return dsIDs[i] < dsIDs[j] })
		for _, id := range dsIDs {
			h := dsHash[id]
			if id == editedDS {
				continue // two different files in the two phases: keep the fetch expectations simple for this one
			}
			if ch.Bool("rpc.persist.exec", 120) {
				bz := app.AppCodec().MustMarshal(&oracletypes.QueryDataRequest{DataHash: h})
				rpc.persist["/band.oracle.v1.Query/Data|"+string(bz)] = true
				for _, ri := range allReqs {
					for _, rr := range ri.Stored.RawRequests {
						if uint64(rr.DataSourceID) == id {
							ri.FetchBad[uint64(rr.ExternalID)] = true
						}
					}
				}
			}
		}
	}
	kr := keyring.NewInMemory(app.AppCodec())
	rec, err := kr.NewAccount("reporter", "abandon abandon abandon abandon abandon abandon abandon abandon abandon abandon abandon about", "", sdk.FullFundraiserPath, hd.Secp256k1)
	if err != nil {
		res.Err = "keyring: " + err.Error()
		return res
	}
	var got []*oracletypes.MsgReportData
	stuck := ""
	simSeconds := 0.0
	func() {
		defer func() {
			if r := recover(); r != nil {
				stuck = fmt.Sprint(r)
			}
		}()
		synctest.Test(o.T, func(t *testing.T) {
			// everything the daemon blocks on must be created inside the bubble
			yc := yoda.NewVerifContext(yoda.VerifConfig{App: app, Client: rpc, Validator: me.Val, Executor: ex, FileCacheDir: filepath.Join(scratch, "yodafiles"), Keyring: kr,
				Keys: []*keyring.Record{rec}, ChainID: cfg.ChainID, MaxTry: maxTry, RPCPollInterval: time.Second})
			done := make(chan struct{})
			var mu sync.Mutex
			go func() {
				for {
					select {
					case m := <-yc.VerifPendingMsgs():
						mu.Lock()
						got = append(got, m.VerifMsg())
						mu.Unlock()
					case <-done:
						return
					}
				}
			}()
			deliver := func(batch []*reqInfo, label string) {
				// the unit the node delivers is the transaction: group the batch by transaction (one may carry several requests)
				var keys []string
				byTx := map[string][]*reqInfo{}
				for _, ri := range batch {
					k := fmt.Sprintf("%012d/%06d", ri.Tx.Height, ri.Tx.Index)
					if byTx[k] == nil {
						keys = append(keys, k)
					}
					byTx[k] = append(byTx[k], ri)
				}
				for _, i := range ch.Perm(label+".order", len(keys)) {
					group := byTx[keys[i]]
					switch ch.Weighted(label+".how", []int{70, 10, 10, 10}) {
					case 0:
						go yc.VerifHandleTransaction(group[0].Tx)
					case 1:
						// a caller of the request handler that did not go through the pending list
						for _, ri := range group {
							go yc.VerifHandleRequest(oracletypes.RequestID(ri.ID))
						}
					case 2:
						// the requests were already open when the daemon started: marked pending, then handled
						for _, ri := range group {
							st.Fault("request_pending_at_daemon_start")
							go yc.VerifStartupPending(oracletypes.RequestID(ri.ID))
						}
					case 3:
						// ... and their transaction event is also delivered (the node replays it): still exactly one report each
						for _, ri := range group {
							st.Fault("request_pending_at_daemon_start")
							go yc.VerifStartupPending(oracletypes.RequestID(ri.ID))
						}
						st.Fault("transaction_event_of_a_pending_request")
						s.run(1)
						go yc.VerifHandleTransaction(group[0].Tx)
					}
					if ch.Bool(label+".gap", 300) {
						s.run(1)
					}
				}
			}
			// the start-up scan of run.go: every id the node reports as pending is marked and handed to the request handler
			for _, id := range startupPending {
				go yc.VerifStartupPending(oracletypes.RequestID(id))
			}
			deliver(reqs, "start")
			t0 := time.Now()
			s.run(int(maxTry)*2 + 45)
			if len(reqs2) > 0 {
				// the first batch is done; from now on the node answers from the state after the edit
				rpc.mu.Lock()
				rpc.table = table2
				rpc.mu.Unlock()
				deliver(reqs2, "phase2")
				s.run(int(maxTry)*2 + 45)
			}
			simSeconds = time.Since(t0).Seconds()
			close(done)
		})
	}()
	if stuck != "" {
		fail("handler_stuck", "", "goroutines of the daemon never finished: %s", firstLine(stuck))
	}

	// ---- oracle ------------------------------------------------------------------------------
	byReq := map[uint64][]*oracletypes.MsgReportData{}
	for _, m := range got {
		byReq[uint64(m.RequestID)] = append(byReq[uint64(m.RequestID)], m)
	}
	nConc, nExecFail := 0, 0
	for _, ri := range allReqs {
		msgs := byReq[ri.ID]
		if !ri.Chosen {
			if len(msgs) != 0 {
				fail("report_for_unchosen_request", "", "request %d did not choose the validator but %d reports were queued", ri.ID, len(msgs))
			}
			st.Trace("not-chosen")
			continue
		}
		if ri.ReportedBefore {
			// the validator's one report is already on chain: a restarted daemon must not produce another
			if len(msgs) != 0 {
				fail("report_duplicated", "after_restart", "request %d was already reported by this validator before the daemon restarted, yet %d more reports were queued", ri.ID, len(msgs))
			}
			st.Trace("reported-before-restart")
			continue
		}
		if len(msgs) != 1 {
			inv := "report_dropped"
			if len(msgs) > 1 {
				inv = "report_duplicated"
			}
			fail(inv, "", "request %d (%d raw requests) chose the validator: %d reports queued, expected exactly one", ri.ID, len(ri.Stored.RawRequests), len(msgs))
			continue
		}
		m := msgs[0]
		if m.Validator != me.Val.String() {
			fail("report_validator", "", "request %d: report names validator %s", ri.ID, m.Validator)
		}
		want := map[uint64]oracletypes.RawRequest{}
		for _, rr := range ri.Stored.RawRequests {
			want[uint64(rr.ExternalID)] = rr
		}
		seen := map[uint64]bool{}
		for _, r := range m.RawReports {
			eid := uint64(r.ExternalID)
			if _, ok := want[eid]; !ok || seen[eid] {
				fail("raw_report_ids", "", "request %d: raw report with external id %d (requested ids %v, duplicate=%v)", ri.ID, eid, keysOf(want), seen[eid])
				continue
			}
			seen[eid] = true
			o := ex.plan[fmt.Sprintf("%d/%d", ri.ID, eid)]
			switch {
			case ri.FetchBad[eid] || o.Kind == "error":
				nExecFail++
				if r.ExitCode != 255 {
					fail("exit_code_on_failure", "", "request %d external id %d: data source could not be fetched/run but exit code is %d (expected 255)", ri.ID, eid, r.ExitCode)
				}
			default:
				wantOut := string(finalOutput(o, ri.Exec[eid]))
				if r.ExitCode != o.Code || string(r.Data) != wantOut {
					fail("raw_report_content", "", "request %d external id %d: report carries exit code %d data %q; running the data source's current executable gives %d %q", ri.ID, eid, r.ExitCode, r.Data, o.Code, wantOut)
				}
			}
		}
		if len(seen) != len(want) {
			fail("raw_report_missing", "", "request %d: %d raw reports for %d raw requests", ri.ID, len(seen), len(want))
		}
		if len(ri.Stored.RawRequests) >= 3 {
			nConc++
		}
		// the chain must accept it
		ctx := w.ReadCtx()
		if err := app.OracleKeeper.CheckValidReport(ctx, m.RequestID, me.Val, m.RawReports); err != nil {
			fail("report_fails_chain_validation", "", "request %d: CheckValidReport: %v", ri.ID, err)
		} else if err := m.ValidateBasic(); err != nil {
			fail("report_fails_chain_validation", "basic", "request %d: ValidateBasic: %v", ri.ID, err)
		} else {
			w.Submit(&world.Intent{Signer: me.Account, Msgs: []sdk.Msg{m}, Tag: "report"})
			blk := w.NextBlock(world.BlockOpts{})
			for _, tx := range blk.Txs {
				if tx.Intent.Tag == "report" && !tx.OK() {
					fail("report_rejected_by_chain", "", "request %d: delivering the report failed: code %d %s", ri.ID, tx.Result.Code, tx.Result.Log)
				}
			}
		}
		st.Trace(fmt.Sprintf("report(n%d)", len(m.RawReports)))
	}
	res.SimSeconds = simSeconds
	st.Trace("order:" + core.Mix64Str(strings.Join(s.seq, ",")))
	st.ProbeN("c19_requests", len(allReqs))
	st.ProbeN("c19_reports_checked", len(got))
	st.ProbeN("c19_exec_or_fetch_failures", nExecFail)
	st.ProbeN("c19_release_choices", s.orders)
	st.Covered(fmt.Sprintf("c19.reqs%d.faulty=%v", len(reqs), faulty))
	res.NonTrivial = len(reqs) >= 2 && nConc >= 1 && (nExecFail > 0 || !faulty) && s.orders > 3
	res.Config = []string{fmt.Sprintf("validators=%d data sources with executable lengths %v, %d requests, maxTry=%d faults=%v", nv, lensOf(execs), len(reqs), maxTry, faulty)}
	return res
}

func lensOf(x [][]byte) []int {
	var o []int
	for _, b := range x {
		o = append(o, len(b))
	}
	return o
}

func keysOf(m map[uint64]oracletypes.RawRequest) []uint64 {
	var o []uint64
	for k := range m {
		o = append(o, k)
	}
	sort.Slice(o, func(i, j int) bool { return o[i] < o[j] })
	return o
}

func firstLine(s string) string {
	if i := strings.IndexByte(s, '\n'); i >= 0 {
		return s[:i]
	}
	return s
}
