package chainsim

import (
	"bytes"
	"fmt"
	"math/big"
	"sort"

	"github.com/bandprotocol/chain/v3/pkg/tss"
	tsstypes "github.com/bandprotocol/chain/v3/x/tss/types"

	"verifsim/ref"
	"verifsim/world"
)

type mGroup struct {
	ID, Size, Threshold uint64
	Created             int64
	Addrs               map[uint64]string
	R1                  map[uint64]*tsstypes.Round1Info
	R2                  map[uint64]*tsstypes.Round2Info
	R3                  map[uint64]string
	CorruptTo           map[uint64]map[uint64]bool
	Malicious           map[uint64]bool
	ComplaintOK         bool
	Status              tsstypes.GroupStatus
	Final               bool
	Cleaned             bool
	ClosedAt            int64
}

// C04 — DKG soundness.
type C04 struct {
	groups   map[uint64]*mGroup
	count    uint64
	period   uint64
	periodChangedAt int64
	lastExpired uint64
	nActive, nComplaintOK, nComplaintFailed, nFallen, nExpired int
}

func (m *C04) Prop() string { return "C04" }

func (m *C04) actor(e *Env) *DKGActor {
	a, _ := e.Shared["dkg.actor"].(*DKGActor)
	return a
}

func (m *C04) OnBlock(e *Env, blk *world.BlockRecord) {
	ctx := e.Ctx()
	tk := e.App().TSSKeeper
	if m.groups == nil {
		m.groups = map[uint64]*mGroup{}
		m.period = e.Shared["tss.genesis.params"].(tsstypes.Params).CreationPeriod
		// groups installed at genesis are final already
		m.count = 0
	}
	periodAfter := tk.GetParams(ctx).CreationPeriod
	if periodAfter != m.period {
		m.periodChangedAt = blk.Height
	}
	// new groups
	chainCount := tk.GetGroupCount(ctx)
	for gid := m.count + 1; gid <= chainCount; gid++ {
		g, err := tk.GetGroup(ctx, tss.GroupID(gid))
		if err != nil {
			continue
		}
		mg := &mGroup{ID: gid, Size: g.Size_, Threshold: g.Threshold, Created: int64(g.CreatedHeight), Addrs: map[uint64]string{}, R1: map[uint64]*tsstypes.Round1Info{},
			R2: map[uint64]*tsstypes.Round2Info{}, R3: map[uint64]string{}, CorruptTo: map[uint64]map[uint64]bool{}, Malicious: map[uint64]bool{}, Status: tsstypes.GROUP_STATUS_ROUND_1}
		if g.Status == tsstypes.GROUP_STATUS_ACTIVE && g.CreatedHeight == 0 {
			mg.Final, mg.Cleaned, mg.Status = true, true, g.Status // genesis group
		}
		ms, _ := tk.GetGroupMembers(ctx, tss.GroupID(gid))
		for _, x := range ms {
			mg.Addrs[uint64(x.ID)] = x.Address
		}
		m.groups[gid] = mg
		if !mg.Final {
			e.St.Trace(fmt.Sprintf("group(n%d,t%d)", g.Size_, g.Threshold))
		}
	}
	m.count = chainCount

	// transactions
	for _, tx := range blk.Txs {
		dm, ok := tx.Intent.Meta.(*dkgMeta)
		if !ok || infraReject(tx) {
			continue
		}
		mg := m.groups[dm.State.GroupID]
		if mg == nil {
			continue
		}
		if !tx.OK() {
			if dm.Honest && !tx.IsDup {
				e.St.Probe("c04_honest_dkg_message_rejected:" + fmt.Sprint(dm.Round))
			}
			e.St.Trace(fmt.Sprintf("r%d-rej:%s", dm.Round, dm.Kind))
			e.St.Covered("c04.rejected." + dm.Kind)
			continue
		}
		switch {
		case dm.Round == 1:
			mg.R1[uint64(dm.R1.MemberID)] = dm.R1
			if dm.Kind != "honest" && dm.Kind != "dup_r1" {
				e.Fail("C04", "invalid_round1_accepted", dm.Kind, "group %d: round-1 message of kind %s was accepted", mg.ID, dm.Kind)
				return
			}
		case dm.Round == 2:
			mg.R2[uint64(dm.R2.MemberID)] = dm.R2
			if dm.Kind == "r2_wrong_count" || dm.Kind == "r2_short_share" {
				e.Fail("C04", "invalid_round2_accepted", dm.Kind, "group %d: malformed round-2 message (%s) was accepted", mg.ID, dm.Kind)
				return
			}
			if dm.Kind == "r2_corrupt_share" || dm.Kind == "r2_share_for_other" || dm.Kind == "r2_share_out_of_range" {
				d := uint64(dm.R2.MemberID)
				if mg.CorruptTo[d] == nil {
					mg.CorruptTo[d] = map[uint64]bool{}
				}
				mg.CorruptTo[d][dm.State.Target] = true
			}
		case dm.Confirm:
			if dm.Kind == "r3_bad_confirm_sig" {
				e.Fail("C04", "invalid_confirm_accepted", "", "group %d: confirmation with an invalid own-public-key signature was accepted", mg.ID)
				return
			}
			if _, acted := mg.R3[dm.State.MemberID]; acted {
				e.Fail("C04", "second_round3_message_accepted", dm.Kind, "group %d: member %d had already confirmed or complained; a further confirmation was accepted", mg.ID, dm.State.MemberID)
				return
			}
			mg.R3[dm.State.MemberID] = "confirm"
		default: // complaint
			if dm.Kind == "r3_forged_complainant" {
				e.Fail("C04", "complaint_in_another_members_name_accepted", "", "group %d: member %d filed a complaint naming member %d as the complainant and it was accepted", mg.ID, dm.State.MemberID, dm.Complaints[0].Complainant)
				return
			}
			compl := dm.State.MemberID
			mg.R3[compl] = "complain"
			cws, err := tk.GetComplaintsWithStatus(ctx, tss.GroupID(mg.ID), tss.MemberID(compl))
			for i, c := range dm.Complaints {
				genuine := dm.Kind == "honest_complaint" && mg.CorruptTo[uint64(c.Respondent)][uint64(c.Complainant)]
				wantStatus := tsstypes.COMPLAINT_STATUS_FAILED
				if genuine {
					wantStatus = tsstypes.COMPLAINT_STATUS_SUCCESS
					mg.Malicious[uint64(c.Respondent)] = true
					mg.ComplaintOK = true
					m.nComplaintOK++
					e.St.Trace("complaint-success")
				} else {
					mg.Malicious[uint64(c.Complainant)] = true
					m.nComplaintFailed++
					e.St.Trace("complaint-failed:" + dm.Kind)
				}
				// stored status (if interim data not yet cleaned in this very block)
				if err == nil && i < len(cws.ComplaintsWithStatus) {
					if got := cws.ComplaintsWithStatus[i].ComplaintStatus; got != wantStatus {
						e.Fail("C04", "complaint_outcome", dm.Kind, "group %d: complaint of member %d against %d (%s, dealer corrupted the share=%v): chain status %v, expected %v",
							mg.ID, c.Complainant, c.Respondent, dm.Kind, mg.CorruptTo[uint64(c.Respondent)][uint64(c.Complainant)], got, wantStatus)
						return
					}
				}
			}
		}
	}

	// expected status of every open group, then compare flags and status
	for _, gid := range sortedGroupIDs(m.groups) {
		mg := m.groups[gid]
		if mg.Final && mg.Cleaned {
			continue
		}
		g, err := tk.GetGroup(ctx, tss.GroupID(gid))
		if err != nil {
			e.Fail("C04", "group_disappeared", "", "group %d not found", gid)
			return
		}
		members, _ := tk.GetGroupMembers(ctx, tss.GroupID(gid))
		if !mg.Final {
			// round progress
			want := tsstypes.GROUP_STATUS_ROUND_1
			switch {
			case uint64(len(mg.R1)) < mg.Size:
			case uint64(len(mg.R2)) < mg.Size:
				want = tsstypes.GROUP_STATUS_ROUND_2
			case uint64(len(mg.R3)) < mg.Size:
				want = tsstypes.GROUP_STATUS_ROUND_3
			default:
				want = tsstypes.GROUP_STATUS_ACTIVE
				if len(mg.Malicious) > 0 {
					want = tsstypes.GROUP_STATUS_FALLEN
				}
			}
			final := want == tsstypes.GROUP_STATUS_ACTIVE || want == tsstypes.GROUP_STATUS_FALLEN
			// expiry (processed after round progress within the same end block)
			expA := uint64(mg.Created)+m.period <= uint64(blk.Height)
			expB := uint64(mg.Created)+periodAfter <= uint64(blk.Height)
			switch {
			case g.Status == tsstypes.GROUP_STATUS_EXPIRED:
				if final {
					e.Fail("C04", "expired_after_completion", "", "group %d completed round 3 (%v) but is EXPIRED", gid, want)
					return
				}
				if !expA && !expB {
					e.Fail("C04", "expired_early", "", "group %d created at %d expired at height %d with creation_period %d", gid, mg.Created, blk.Height, m.period)
					return
				}
				mg.Final = true
				mg.ClosedAt = blk.Height
				m.nExpired++
				e.St.Trace("group-expired")
			case g.Status != want:
				e.Fail("C04", "group_status", fmt.Sprint(want), "group %d: chain status %v, protocol state says %v (round1 %d/%d, round2 %d/%d, round3 %d/%d, malicious %v)", gid, g.Status, want,
					len(mg.R1), mg.Size, len(mg.R2), mg.Size, len(mg.R3), mg.Size, sortedU64(boolKeys(mg.Malicious)))
				return
			case !final && expA && expB && m.periodChangedAt < mg.Created && m.oldestOpen(gid):
				e.Fail("C04", "expiry_missed", "", "group %d created at %d is still %v at height %d with creation_period %d", gid, mg.Created, g.Status, blk.Height, m.period)
				return
			}
			mg.Status = g.Status
			if final && g.Status == want {
				mg.Final = true
				mg.ClosedAt = blk.Height
				if want == tsstypes.GROUP_STATUS_ACTIVE {
					if !m.checkActive(e, mg, g, members) {
						return
					}
					m.nActive++
					e.St.Trace("group-active")
					e.St.Covered(fmt.Sprintf("c04.active.n%d.t%d", mg.Size, mg.Threshold))
				} else {
					m.nFallen++
					e.St.Trace("group-fallen")
				}
			}
		} else if g.Status != mg.Status && !(mg.Status != tsstypes.GROUP_STATUS_EXPIRED && g.Status == mg.Status) {
			if g.Status != mg.Status {
				e.Fail("C04", "final_status_changed", "", "group %d: status changed from %v to %v after completion", gid, mg.Status, g.Status)
				return
			}
		}
		if mg.ComplaintOK && g.Status == tsstypes.GROUP_STATUS_ACTIVE {
			e.Fail("C04", "active_despite_cheater", "", "group %d is ACTIVE although a dealer was proven to have sent an inconsistent share", gid)
			return
		}
		// malicious flags: chain == model; in particular protocol followers are never blamed
		act := m.actor(e)
		for _, cm := range members {
			mid := uint64(cm.ID)
			if cm.IsMalicious != mg.Malicious[mid] {
				inv := "cheater_not_marked"
				if cm.IsMalicious {
					inv = "member_wrongly_marked_malicious"
					if act != nil {
						if st := act.States[fmt.Sprintf("%d/%s", gid, cm.Address)]; st != nil && st.Deviation == "" {
							inv = "honest_member_marked_malicious"
						}
					}
				}
				e.Fail("C04", inv, "", "group %d member %d: chain malicious=%v, model=%v", gid, mid, cm.IsMalicious, mg.Malicious[mid])
				return
			}
		}
		// interim data is removed once expiry processing passed the group
		last := uint64(tk.GetLastExpiredGroupID(ctx))
		if gid <= last {
			if _, err := tk.GetDKGContext(ctx, tss.GroupID(gid)); err == nil || len(tk.GetRound1Infos(ctx, tss.GroupID(gid))) > 0 || len(tk.GetRound2Infos(ctx, tss.GroupID(gid))) > 0 ||
				len(tk.GetConfirms(ctx, tss.GroupID(gid))) > 0 || len(tk.GetAllComplainsWithStatus(ctx, tss.GroupID(gid))) > 0 || len(tk.GetAllAccumulatedCommits(ctx, tss.GroupID(gid))) > 0 {
				e.Fail("C04", "interim_dkg_data_remains", "", "group %d: expiry processing passed (last expired id %d) but interim DKG data is still stored", gid, last)
				return
			}
			if !mg.Final {
				e.Fail("C04", "expiry_passed_open_group", "", "group %d is %v although expiry processing passed it", gid, g.Status)
				return
			}
			mg.Cleaned = true
		}
	}
	m.period = periodAfter
}

func (m *C04) oldestOpen(gid uint64) bool {
	for id, g := range m.groups {
		if id < gid && !g.Cleaned {
			return false
		}
	}
	return true
}

func boolKeys(m map[uint64]bool) map[uint64]bool { return m }

func sortedGroupIDs(m map[uint64]*mGroup) []uint64 {
	o := make([]uint64, 0, len(m))
	for k := range m {
		o = append(o, k)
	}
	sort.Slice(o, func(i, j int) bool { return o[i] < o[j] })
	return o
}

// checkActive verifies the published key material of a group that just became ACTIVE.
func (m *C04) checkActive(e *Env, mg *mGroup, g tsstypes.Group, members []tsstypes.Member) bool {
	// group key = sum of constant-term commitments of the accepted round-1 messages
	var a0 [][]byte
	sums := make([][][]byte, mg.Threshold)
	for _, mid := range sortedU64(r1Keys(mg.R1)) {
		r1 := mg.R1[mid]
		a0 = append(a0, r1.CoefficientCommits[0])
		for k := range sums {
			sums[k] = append(sums[k], r1.CoefficientCommits[k])
		}
	}
	gk, err := ref.SumPoints(a0)
	if err != nil || !bytes.Equal(ref.Compress(gk), g.PubKey) {
		e.Fail("C04", "group_key", "", "group %d: public key %X is not the sum of the members' constant-term commitments", mg.ID, []byte(g.PubKey))
		return false
	}
	var summed [][]byte
	for k := range sums {
		p, err := ref.SumPoints(sums[k])
		if err != nil {
			e.Fail("C04", "commitments", "", "group %d: bad commitment", mg.ID)
			return false
		}
		summed = append(summed, ref.Compress(p))
	}
	act := m.actor(e)
	type share struct {
		id uint64
		s  *big.Int
	}
	var shares []share
	for _, cm := range members {
		mid := uint64(cm.ID)
		if mg.R3[mid] != "confirm" || cm.IsMalicious {
			e.Fail("C04", "active_without_all_confirmed", "", "group %d ACTIVE but member %d: round3=%q malicious=%v", mg.ID, mid, mg.R3[mid], cm.IsMalicious)
			return false
		}
		want, err := ref.EvalCommits(summed, mid)
		if err != nil || !bytes.Equal(ref.Compress(want), cm.PubKey) {
			e.Fail("C04", "member_key", "", "group %d member %d: registered public key is not the evaluation of the summed commitments at its id", mg.ID, mid)
			return false
		}
		if act != nil {
			if st := act.States[fmt.Sprintf("%d/%s", mg.ID, cm.Address)]; st != nil && st.PrivShare != nil {
				if !bytes.Equal(st.PrivShare.Point(), cm.PubKey) {
					e.Fail("C04", "member_share_mismatch", "", "group %d member %d: the share the member derived does not match its registered public key", mg.ID, mid)
					return false
				}
				shares = append(shares, share{mid, new(big.Int).SetBytes(st.PrivShare)})
			}
		}
	}
	// any threshold subset interpolates to the group key; fewer do not
	if uint64(len(shares)) >= mg.Threshold {
		p := e.Ch.Perm("c04.subset", len(shares))
		interp := func(n int) ref.Pt {
			var ids []uint64
			for _, i := range p[:n] {
				ids = append(ids, shares[i].id)
			}
			acc := new(big.Int)
			for _, i := range p[:n] {
				t := new(big.Int).Mul(ref.Lagrange(shares[i].id, ids), shares[i].s)
				acc.Add(acc, t).Mod(acc, ref.N)
			}
			return ref.BaseMul(acc)
		}
		if !ref.Equal(interp(int(mg.Threshold)), gk) {
			e.Fail("C04", "threshold_subset_cannot_sign", "", "group %d: a threshold-sized subset of shares does not interpolate to the group key", mg.ID)
			return false
		}
		if mg.Threshold > 1 && ref.Equal(interp(int(mg.Threshold)-1), gk) {
			e.Fail("C04", "below_threshold_can_sign", "", "group %d: fewer than threshold shares interpolate to the group key", mg.ID)
			return false
		}
	}
	return true
}

func r1Keys(m map[uint64]*tsstypes.Round1Info) map[uint64]bool {
	o := map[uint64]bool{}
	for k := range m {
		o[k] = true
	}
	return o
}

func (m *C04) Pending(e *Env) bool {
	for _, g := range m.groups {
		if !g.Final {
			return true
		}
	}
	return false
}
func (m *C04) Finish(e *Env) {}
func (m *C04) NonTrivial(e *Env) bool {
	e.St.ProbeN("c04_groups_active", m.nActive)
	e.St.ProbeN("c04_groups_fallen", m.nFallen)
	e.St.ProbeN("c04_groups_expired", m.nExpired)
	e.St.ProbeN("c04_complaints_success", m.nComplaintOK)
	e.St.ProbeN("c04_complaints_failed", m.nComplaintFailed)
	return m.nActive > 0 && (m.nComplaintOK > 0 || m.nComplaintFailed > 0)
}
