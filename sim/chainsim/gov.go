package chainsim

import (
	"fmt"

	sdk "github.com/cosmos/cosmos-sdk/types"
	authtypes "github.com/cosmos/cosmos-sdk/x/auth/types"
	govtypes "github.com/cosmos/cosmos-sdk/x/gov/types"
	govv1 "github.com/cosmos/cosmos-sdk/x/gov/types/v1"

	"verifsim/world"
)

var govAuthority = authtypes.NewModuleAddress(govtypes.ModuleName).String()

// GovActor pushes authority-gated messages through the real x/gov: proposal + deposit, votes by all
// validators' self-delegators, execution by gov's end blocker when the (short) voting period ends.
type GovActor struct {
	props []*GovProp
	n     int
}

type GovProp struct {
	Tag      string
	Meta     any
	Msgs     []sdk.Msg
	ID       uint64
	Voted    bool
	Result   string // "", proposal_passed, proposal_failed, proposal_rejected
	ResultAt int64
}

type govSubmitMeta struct{ Prop *GovProp }

func getGov(e *Env) *GovActor {
	g, _ := e.Shared["gov"].(*GovActor)
	return g
}

// Propose submits a proposal carrying msgs (each must name the gov module account as authority).
func (g *GovActor) Propose(e *Env, tag string, meta any, msgs ...sdk.Msg) *GovProp {
	g.n++
	p := &GovProp{Tag: tag, Meta: meta, Msgs: msgs}
	proposer := e.W.Vals[0].Account
	m, err := govv1.NewMsgSubmitProposal(msgs, sdk.NewCoins(sdk.NewInt64Coin("uband", 1000)), proposer.Addr.String(), "", fmt.Sprintf("p%d-%s", g.n, tag), "verif", false)
	if err != nil {
		panic(err)
	}
	e.Submit(proposer, "gov_submit:"+tag, &govSubmitMeta{Prop: p}, m)
	g.props = append(g.props, p)
	return p
}

func (g *GovActor) Act(e *Env) {
	for _, p := range g.props {
		if p.ID != 0 && !p.Voted {
			p.Voted = true
			for _, v := range e.W.Vals {
				e.Submit(v.Account, "gov_vote", nil, govv1.NewMsgVote(v.Addr, p.ID, govv1.OptionYes, ""))
			}
		}
	}
}

func (g *GovActor) OnBlock(e *Env, blk *world.BlockRecord) {
	for _, tx := range blk.Txs {
		sm, ok := tx.Intent.Meta.(*govSubmitMeta)
		if !ok || tx.IsDup {
			continue
		}
		if !tx.OK() {
			sm.Prop.Result = "submit_failed"
			sm.Prop.ResultAt = blk.Height
			continue
		}
		for _, ev := range EventsOfType(ParseEvents(tx.Result.Events), govtypes.EventTypeSubmitProposal) {
			if id := ev.U64(govtypes.AttributeKeyProposalID); id != 0 {
				sm.Prop.ID = id
			}
		}
	}
	for _, ev := range EventsOfType(ParseEvents(blk.Resp.Events), govtypes.EventTypeActiveProposal) {
		id := ev.U64(govtypes.AttributeKeyProposalID)
		for _, p := range g.props {
			if p.ID == id && p.Result == "" {
				p.Result = ev.Get(govtypes.AttributeKeyProposalResult)
				p.ResultAt = blk.Height
				e.Log.Add(" gov proposal %d (%s): %s", id, p.Tag, p.Result)
				e.St.Probe("gov_" + p.Result)
			}
		}
	}
}

// ResultsAt returns the proposals whose outcome was decided in the given block.
func (g *GovActor) ResultsAt(h int64) []*GovProp {
	var out []*GovProp
	for _, p := range g.props {
		if p.ResultAt == h && p.Result != "" {
			out = append(out, p)
		}
	}
	return out
}
