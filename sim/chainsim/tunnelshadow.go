package chainsim

import (
	"fmt"
	"sort"

	"cosmossdk.io/math"

	sdk "github.com/cosmos/cosmos-sdk/types"
	authtypes "github.com/cosmos/cosmos-sdk/x/auth/types"

	bandtsstypes "github.com/bandprotocol/chain/v3/x/bandtss/types"
	feedstypes "github.com/bandprotocol/chain/v3/x/feeds/types"
	tunneltypes "github.com/bandprotocol/chain/v3/x/tunnel/types"

	"verifsim/world"
)

// TunnelShadow: model of tunnels (deposits, activity, sequence, latest prices) and of the balances of depositors, fee payers
// and the tunnel module account. Shared by C08 and C17.

type mTunnel struct {
	ID        uint64
	Creator   string
	FeePayer  string
	IsTSS     bool
	Encoder   feedstypes.Encoder
	Signals   []tunneltypes.SignalDeviation
	Interval  uint64
	Sequence  uint64
	Active    bool
	Total     sdk.Coins
	Deposits  map[string]sdk.Coins
	Latest    map[string]feedstypes.Price
	LastInterval int64
}

type jTunnelOp struct {
	Tx        *world.TxRecord
	Meta      *tunnelMeta
	T         *mTunnel // nil when the tunnel does not exist
	RecordPre sdk.Coins
	TotalPre  sdk.Coins
	ActivePre bool
	IsCreator bool
	MinDeposit sdk.Coins
	BalancePre sdk.Coins
}

type jPacket struct {
	T          *mTunnel
	Trigger    bool
	FundsOK    bool
	FeeNeeded  sdk.Coins
	PayerBal   sdk.Coins
	Due        bool
	SendAll    bool
	Expect     []feedstypes.Price // prices the packet must carry if produced
	Outcome    string             // "success", "fail", "deactivated", "none"
	Reason     string
	Seq        uint64
	MustSucceed bool
	RouteFee   sdk.Coins
	BaseFee    sdk.Coins
}

type TunnelShadow struct {
	height   int64
	Params   tunneltypes.Params
	Tunnels  map[uint64]*mTunnel
	count    uint64
	L        *Ledger
	module   string
	escrow   string
	PrevPrices map[string]feedstypes.Price // feeds prices at the end of the previous block
	JOps     []jTunnelOp
	JPackets []jPacket
	StrayEvents []string
	routeFeePrev sdk.Coins
	Users    []*world.Account
}

func NewTunnelShadow(e *Env, p tunneltypes.Params, users []*world.Account) *TunnelShadow {
	s := &TunnelShadow{Params: p, Tunnels: map[uint64]*mTunnel{}, L: NewLedger(), PrevPrices: map[string]feedstypes.Price{}, Users: users}
	coins := sdk.NewCoins(sdk.NewInt64Coin("uband", 1_000_000_000_000), sdk.NewInt64Coin("uusd", 1_000_000_000), sdk.NewInt64Coin("uatom", 1_000_000_000))
	for _, u := range users {
		s.L.Track(u.Name, u.Addr, coins)
	}
	s.module = authtypes.NewModuleAddress(tunneltypes.ModuleName).String()
	s.escrow = authtypes.NewModuleAddress(bandtsstypes.ModuleName).String()
	s.L.Track("tunnel-module", authtypes.NewModuleAddress(tunneltypes.ModuleName), sdk.NewCoins())
	return s
}

func getTunnelShadow(e *Env) *TunnelShadow { return e.Shared["tunnel.shadow"].(*TunnelShadow) }

func (s *TunnelShadow) sortedIDs() []uint64 {
	o := make([]uint64, 0, len(s.Tunnels))
	for k := range s.Tunnels {
		o = append(o, k)
	}
	sort.Slice(o, func(i, j int) bool { return o[i] < o[j] })
	return o
}

func deviationBPS(oldP, newP uint64) math.Int {
	if oldP == newP {
		return math.ZeroInt()
	}
	if oldP == 0 {
		return math.NewInt(1<<63 - 1)
	}
	o, n := math.NewIntFromUint64(oldP), math.NewIntFromUint64(newP)
	return n.Sub(o).Abs().MulRaw(10000).Quo(o)
}

func priceOf(m map[string]feedstypes.Price, sig string, now int64) feedstypes.Price {
	if p, ok := m[sig]; ok {
		return p
	}
	return feedstypes.NewPrice(feedstypes.PRICE_STATUS_NOT_IN_CURRENT_FEEDS, sig, 0, now)
}

func (s *TunnelShadow) applyPacket(t *mTunnel, prices []feedstypes.Price, base, route sdk.Coins, now int64, sendAll bool) {
	t.Sequence++
	s.L.Move(t.FeePayer, s.module, base)
	s.L.Move(t.FeePayer, s.escrow, route)
	for _, p := range prices {
		t.Latest[p.SignalID] = p
	}
	if sendAll {
		t.LastInterval = now
	}
}

func (s *TunnelShadow) Advance(e *Env, blk *world.BlockRecord) {
	if s.height == blk.Height {
		return
	}
	s.height = blk.Height
	s.JOps, s.JPackets, s.StrayEvents = nil, nil, nil
	ctx := e.Ctx()
	tk := e.App().TunnelKeeper
	now := blk.Time.Unix()
	routeFeeAfter, _ := e.App().BandtssKeeper.GetSigningFee(ctx)
	for _, tx := range blk.Txs {
		switch meta := tx.Intent.Meta.(type) {
		case *bankMeta:
			if tx.OK() {
				s.L.Move(meta.Msg.FromAddress, meta.Msg.ToAddress, meta.Msg.Amount)
			}
		case *tunnelMeta:
			if infraReject(tx) {
				continue
			}
			t := s.Tunnels[meta.TunnelID]
			j := jTunnelOp{Tx: tx, Meta: meta, T: t, MinDeposit: s.Params.MinDeposit, BalancePre: s.L.Bal[meta.Actor.Addr.String()]}
			if t != nil {
				j.RecordPre = t.Deposits[meta.Actor.Addr.String()]
				j.TotalPre = t.Total
				j.ActivePre = t.Active
				j.IsCreator = t.Creator == meta.Actor.Addr.String()
			}
			s.JOps = append(s.JOps, j)
			if !tx.OK() {
				continue
			}
			switch meta.Kind {
			case "create":
				s.count++
				ct, err := tk.GetTunnel(ctx, s.count)
				if err != nil {
					continue
				}
				nt := &mTunnel{ID: s.count, Creator: meta.Actor.Addr.String(), FeePayer: ct.FeePayer, IsTSS: meta.IsTSS, Signals: meta.Create.SignalDeviations, Interval: meta.Create.Interval,
					Total: sdk.NewCoins(), Deposits: map[string]sdk.Coins{}, Latest: map[string]feedstypes.Price{}}
				if r, err := ct.GetRouteValue(); err == nil {
					if tr, ok := r.(*tunneltypes.TSSRoute); ok {
						nt.Encoder = tr.Encoder
					}
				}
				s.Tunnels[nt.ID] = nt
				s.L.Track(fmt.Sprintf("feepayer-tunnel%d", nt.ID), sdk.MustAccAddressFromBech32(ct.FeePayer), sdk.NewCoins())
				meta.TunnelID = nt.ID
				s.JOps[len(s.JOps)-1].T = nt
				if !meta.Amount.IsZero() {
					s.L.Move(nt.Creator, s.module, meta.Amount)
					nt.Deposits[nt.Creator] = meta.Amount
					nt.Total = meta.Amount
				}
			case "deposit":
				a := meta.Actor.Addr.String()
				s.L.Move(a, s.module, meta.Amount)
				t.Deposits[a] = t.Deposits[a].Add(meta.Amount...)
				t.Total = t.Total.Add(meta.Amount...)
			case "withdraw":
				a := meta.Actor.Addr.String()
				s.L.Move(s.module, a, meta.Amount)
				t.Deposits[a] = t.Deposits[a].Sub(meta.Amount...)
				if t.Deposits[a].IsZero() {
					delete(t.Deposits, a)
				}
				t.Total = t.Total.Sub(meta.Amount...)
				if t.Active && !t.Total.IsAllGTE(s.Params.MinDeposit) {
					t.Active = false
				}
			case "activate":
				t.Active = true
			case "deactivate":
				t.Active = false
			case "trigger":
				var prices []feedstypes.Price
				for _, sd := range t.Signals {
					prices = append(prices, priceOf(s.PrevPrices, sd.SignalID, now))
				}
				route := sdk.NewCoins()
				if t.IsTSS {
					route = s.routeFeePrev
				}
				jp := jPacket{T: t, Trigger: true, FundsOK: true, Due: true, SendAll: true, Expect: prices, Outcome: "success", Seq: t.Sequence + 1, RouteFee: route, BaseFee: s.Params.BasePacketFee}
				s.applyPacket(t, prices, s.Params.BasePacketFee, route, now, true)
				s.JPackets = append(s.JPackets, jp)
			}
		}
	}
	// end block: feeds prices of this block, then the active tunnels in id order
	P := map[string]feedstypes.Price{}
	for _, p := range e.App().FeedsKeeper.GetAllPrices(ctx) {
		P[p.SignalID] = p
	}
	outcome := map[uint64]jPacket{}
	for _, ev := range ParseEvents(blk.Resp.Events) {
		if ev.Mode != "EndBlock" {
			continue
		}
		id := ev.U64(tunneltypes.AttributeKeyTunnelID)
		switch ev.Type {
		case tunneltypes.EventTypeProducePacketSuccess:
			o := outcome[id]
			if o.Outcome != "" {
				s.StrayEvents = append(s.StrayEvents, fmt.Sprintf("tunnel %d: second packet event in one end block", id))
			}
			o.Outcome, o.Seq = "success", ev.U64(tunneltypes.AttributeKeySequence)
			outcome[id] = o
		case tunneltypes.EventTypeProducePacketFail:
			o := outcome[id]
			if o.Outcome != "" {
				s.StrayEvents = append(s.StrayEvents, fmt.Sprintf("tunnel %d: second packet event in one end block", id))
			}
			o.Outcome, o.Reason = "fail", ev.Get(tunneltypes.AttributeKeyReason)
			outcome[id] = o
		case tunneltypes.EventTypeDeactivateTunnel:
			o := outcome[id]
			o.Outcome = "deactivated"
			outcome[id] = o
		}
	}
	var sh *TSSShadow
	if x, ok := e.Shared["tss.shadow"].(*TSSShadow); ok {
		sh = x
		sh.Advance(e, blk)
	}
	curGroup := uint64(e.App().BandtssKeeper.GetCurrentGroup(ctx).GroupID)
	// governance runs before the tunnel module in the end block: a parameter change executed in this block already governs this
	// block's packet production (the transactions above were judged with the parameters in force before)
	s.Params = e.App().TunnelKeeper.GetParams(ctx)
	for _, id := range s.sortedIDs() {
		t := s.Tunnels[id]
		o, seen := outcome[id]
		if !t.Active {
			if seen {
				s.StrayEvents = append(s.StrayEvents, fmt.Sprintf("tunnel %d is inactive but the end block reported %q for it", id, o.Outcome))
			}
			continue
		}
		route := sdk.NewCoins()
		if t.IsTSS {
			route = routeFeeAfter
		}
		need := s.Params.BasePacketFee.Add(route...)
		jp := jPacket{T: t, FeeNeeded: need, PayerBal: s.L.Bal[t.FeePayer], RouteFee: route, BaseFee: s.Params.BasePacketFee, Outcome: "none"}
		jp.FundsOK = jp.PayerBal.IsAllGTE(need)
		if seen {
			jp.Outcome, jp.Reason, jp.Seq = o.Outcome, o.Reason, o.Seq
		}
		if jp.FundsOK {
			jp.SendAll = now >= int64(t.Interval)+t.LastInterval
			hard := false
			var carry []feedstypes.Price
			for _, sd := range t.Signals {
				p := priceOf(P, sd.SignalID, now)
				old := uint64(0)
				if lp, ok := t.Latest[sd.SignalID]; ok {
					old = lp.Price
				}
				dev := deviationBPS(old, p.Price)
				if dev.GTE(math.NewIntFromUint64(sd.HardDeviationBPS)) {
					hard = true
				}
				if jp.SendAll || dev.GTE(math.NewIntFromUint64(sd.SoftDeviationBPS)) {
					carry = append(carry, p)
				}
			}
			jp.Due = jp.SendAll || hard
			if jp.Due {
				jp.Expect = carry
				// the route must succeed when the model can show it
				if t.IsTSS && t.Encoder == feedstypes.ENCODER_FIXED_POINT_ABI && curGroup != 0 && sh != nil {
					ok := true
					for _, p := range carry {
						if len(p.SignalID) > 32 {
							ok = false
						}
					}
					if g := sh.group(e, curGroup); g == nil || uint64(sh.avail(e, curGroup)) < g.Threshold {
						ok = false
					}
					jp.MustSucceed = ok
				}
			}
		}
		// apply the observed outcome to the model
		switch jp.Outcome {
		case "success":
			s.applyPacket(t, jp.Expect, s.Params.BasePacketFee, route, now, jp.SendAll)
		case "deactivated":
			t.Active = false
		}
		s.JPackets = append(s.JPackets, jp)
	}
	s.PrevPrices = P
	s.routeFeePrev = routeFeeAfter
}
