package chainsim

import (
	"bytes"
	"context"
	"fmt"

	abci "github.com/cometbft/cometbft/abci/types"
	cmtbytes "github.com/cometbft/cometbft/libs/bytes"
	rpcclient "github.com/cometbft/cometbft/rpc/client"
	coretypes "github.com/cometbft/cometbft/rpc/core/types"
	cmttypes "github.com/cometbft/cometbft/types"

	"github.com/ethereum/go-ethereum/crypto"

	"github.com/cosmos/cosmos-sdk/client"
	"github.com/cosmos/cosmos-sdk/server/config"

	"github.com/bandprotocol/chain/v3/client/grpc/oracle/proof"
	oracletypes "github.com/bandprotocol/chain/v3/x/oracle/types"

	"verifsim/ref"
	"verifsim/world"
)

// nodeStub is the RPC node the real proof service talks to: commits come from the conductor's block store, ABCI queries go
// to the primary replica's Query.
type nodeStub struct {
	rpcclient.Client
	w *world.World
}

func (n *nodeStub) Commit(_ context.Context, height *int64) (*coretypes.ResultCommit, error) {
	h := n.w.Height - 1 // latest block whose commit is known
	if height != nil {
		h = *height
	}
	blk := n.w.Blocks[h]
	if blk == nil || blk.Commit == nil {
		return nil, fmt.Errorf("no commit for height %d", h)
	}
	hdr := blk.Header
	return &coretypes.ResultCommit{SignedHeader: cmttypes.SignedHeader{Header: &hdr, Commit: blk.Commit}, CanonicalCommit: true}, nil
}

func (n *nodeStub) ABCIQueryWithOptions(ctx context.Context, path string, data cmtbytes.HexBytes, opts rpcclient.ABCIQueryOptions) (*coretypes.ResultABCIQuery, error) {
	res, err := n.w.Primary().Query(ctx, &abci.RequestQuery{Path: path, Data: data, Height: opts.Height, Prove: opts.Prove})
	if err != nil {
		return nil, err
	}
	return &coretypes.ResultABCIQuery{Response: *res}, nil
}

// C12 — relay proofs verify against the real store layout, header and signatures.
type C12 struct {
	srv      proof.ServiceServer
	nProofs, nDeep, nMulti, nCount, nOld int
}

func (m *C12) Prop() string { return "C12" }

func ethAddrOfCons(pub []byte) [20]byte {
	var out [20]byte
	pk, err := crypto.DecompressPubkey(pub)
	if err != nil {
		return out
	}
	copy(out[:], crypto.PubkeyToAddress(*pk).Bytes())
	return out
}

func encodeBridgeResult(r ref.BridgeResult) []byte {
	res := oracletypes.NewResult(r.ClientID, oracletypes.OracleScriptID(r.OracleScriptID), r.Params, r.AskCount, r.MinCount, oracletypes.RequestID(r.RequestID), r.AnsCount,
		int64(r.RequestTime), int64(r.ResolveTime), oracletypes.ResolveStatus(r.ResolveStatus), r.Result)
	bz, err := res.Marshal()
	if err != nil {
		panic(err)
	}
	return bz
}

func (m *C12) OnBlock(e *Env, blk *world.BlockRecord) {
	w := e.W
	if m.srv == nil {
		m.srv = proof.NewProofServer(client.Context{Client: &nodeStub{w: w}}, config.Config{})
	}
	ctx := e.Ctx()
	count := e.App().OracleKeeper.GetRequestCount(ctx)
	// heights whose commit is known: up to w.Height-1; proofs read state at height-1
	maxH := w.Height - 1
	if maxH <= w.Cfg.InitialHeight || !e.Ch.Bool("c12.query", 600) {
		return
	}
	h := maxH
	if e.Ch.Bool("c12.old", 400) {
		h = w.Cfg.InitialHeight + 1 + int64(e.Ch.Intn("c12.oldh", int(maxH-w.Cfg.InitialHeight)))
		m.nOld++
	}
	target := w.Blocks[h]
	if target == nil || target.Commit == nil {
		return
	}
	// validator set of that block
	var vals []ref.BridgeValidator
	valByEth := map[[20]byte]*cmttypes.Validator{}
	for _, v := range target.ValSet.Validators {
		a := ethAddrOfCons(v.PubKey.Bytes())
		vals = append(vals, ref.BridgeValidator{Addr: a, Power: uint64(v.VotingPower)})
		valByEth[a] = v
	}
	committed := map[string]cmttypes.CommitSig{}
	for _, cs := range target.Commit.Signatures {
		if cs.BlockIDFlag == cmttypes.BlockIDFlagCommit {
			committed[string(cs.ValidatorAddress)] = cs
		}
	}
	checkRelay := func(kind string, relay []byte) *ref.BridgeBlock {
		bb, err := ref.RelayBlock(relay, w.Cfg.ChainID, vals)
		if err != nil {
			e.Fail("C12", "relay_block", kind, "%s proof for height %d does not verify with the bridge algorithm: %v", kind, h, err)
			return nil
		}
		if !bytes.Equal(bb.AppHash, target.Header.AppHash) {
			e.Fail("C12", "app_hash", kind, "height %d: multistore recombination gives %X, the header's app hash is %X", h, bb.AppHash, []byte(target.Header.AppHash))
			return nil
		}
		if !bytes.Equal(bb.BlockHash, target.BlockID.Hash) {
			e.Fail("C12", "block_hash", kind, "height %d: header recombination gives %X, the block hash is %X", h, bb.BlockHash, []byte(target.BlockID.Hash))
			return nil
		}
		for i, a := range bb.Signers {
			v := valByEth[a]
			cs, ok := committed[string(v.Address)]
			if !ok {
				e.Fail("C12", "signer_did_not_precommit", kind, "height %d: signature %d recovers validator %X which did not pre-commit the block", h, i, v.Address)
				return nil
			}
			vote := target.Commit.GetVote(int32(indexOfVal(target.ValSet, v.Address)))
			sb := cmttypes.VoteSignBytes(w.Cfg.ChainID, vote.ToProto())
			// the reconstructed message (without its length prefix) must be what the validator really signed
			if len(sb) < 2 || !bytes.Equal(sb[1:], bb.VoteMsgs[i]) {
				e.Fail("C12", "vote_sign_bytes", kind, "height %d round %d: reconstructed vote bytes differ from the canonical sign bytes of validator %X (timestamp %s)", h, target.Commit.Round, v.Address, cs.Timestamp)
				return nil
			}
		}
		if len(bb.Signers) != len(committed) {
			e.St.Probe("c12_fewer_signatures_than_precommits")
		}
		return bb
	}
	switch kind := e.Ch.Weighted("c12.kind", []int{60, 20, 20}); {
	case kind == 2 || count == 0:
		res, err := m.srv.RequestCountProof(context.Background(), &proof.RequestCountProofRequest{})
		if err != nil {
			if lb := w.Blocks[maxH]; lb != nil && lb.Commit != nil && maxH-1 > w.Cfg.InitialHeight {
				e.Fail("C12", "proof_service_error", "count", "request-count proof failed for the latest committed block %d (round %d): %v", maxH, lb.Commit.Round, err)
				return
			}
			e.St.Probe("c12_count_proof_error")
			return
		}
		// the count proof is always for the latest height
		h = int64(res.Result.Proof.BlockHeight)
		target = w.Blocks[h]
		if target == nil || target.Commit == nil {
			return
		}
		vals, valByEth, committed = nil, map[[20]byte]*cmttypes.Validator{}, map[string]cmttypes.CommitSig{}
		for _, v := range target.ValSet.Validators {
			a := ethAddrOfCons(v.PubKey.Bytes())
			vals = append(vals, ref.BridgeValidator{Addr: a, Power: uint64(v.VotingPower)})
			valByEth[a] = v
		}
		for _, cs := range target.Commit.Signatures {
			if cs.BlockIDFlag == cmttypes.BlockIDFlagCommit {
				committed[string(cs.ValidatorAddress)] = cs
			}
		}
		relay, verify, err := ref.SplitSingle(res.Result.EvmProofBytes)
		if err != nil {
			e.Fail("C12", "proof_bytes", "count", "%v", err)
			return
		}
		bb := checkRelay("count", relay)
		if bb == nil {
			return
		}
		bh, cnt, root, err := ref.VerifyCount(verify)
		if err != nil || !bytes.Equal(root, bb.OracleRoot) || bh != uint64(h) {
			e.Fail("C12", "count_proof", "", "height %d: request-count leaf hashed up the path gives %X, oracle store root is %X (err %v, proof height %d)", h, root, bb.OracleRoot, err, bh)
			return
		}
		_ = cnt
		m.nCount++
		m.nProofs++
		e.St.Trace("count-proof")
	case kind == 1 && count >= 2:
		// multi proof is for the latest height
		var ids []uint64
		for _, i := range e.Ch.Perm("c12.multi", int(min64(int64(count), 6)))[:2] {
			ids = append(ids, uint64(i+1))
		}
		res, err := m.srv.MultiProof(context.Background(), &proof.MultiProofRequest{RequestIds: ids})
		if err != nil {
			all := true
			for _, id := range ids {
				q, qerr := w.Primary().Query(context.Background(), &abci.RequestQuery{Path: "/store/oracle/key", Data: oracletypes.ResultStoreKey(oracletypes.RequestID(id)), Height: maxH - 1})
				if qerr != nil || len(q.Value) == 0 {
					all = false
				}
			}
			if all {
				e.Fail("C12", "proof_service_error", "multi", "results %v exist at height %d but the multi-proof failed for block %d: %v", ids, maxH-1, maxH, err)
				return
			}
			e.St.Probe("c12_multi_proof_error")
			return
		}
		h = int64(res.Result.Proof.BlockHeight)
		target = w.Blocks[h]
		if target == nil || target.Commit == nil {
			return
		}
		vals, valByEth, committed = nil, map[[20]byte]*cmttypes.Validator{}, map[string]cmttypes.CommitSig{}
		for _, v := range target.ValSet.Validators {
			a := ethAddrOfCons(v.PubKey.Bytes())
			vals = append(vals, ref.BridgeValidator{Addr: a, Power: uint64(v.VotingPower)})
			valByEth[a] = v
		}
		for _, cs := range target.Commit.Signatures {
			if cs.BlockIDFlag == cmttypes.BlockIDFlagCommit {
				committed[string(cs.ValidatorAddress)] = cs
			}
		}
		relay, verifies, err := ref.SplitMulti(res.Result.EvmProofBytes)
		if err != nil {
			e.Fail("C12", "proof_bytes", "multi", "%v", err)
			return
		}
		bb := checkRelay("multi", relay)
		if bb == nil {
			return
		}
		for i, v := range verifies {
			_, r, root, _, err := ref.VerifyOracleData(v, encodeBridgeResult)
			if err != nil || !bytes.Equal(root, bb.OracleRoot) || r.RequestID != ids[i] {
				e.Fail("C12", "oracle_data_proof", "multi", "height %d request %d: result leaf hashed up the path gives %X, oracle store root is %X (err %v)", h, ids[i], root, bb.OracleRoot, err)
				return
			}
		}
		m.nMulti++
		m.nProofs++
		e.St.Trace("multi-proof")
	default:
		rid := uint64(1 + e.Ch.Intn("c12.rid", int(count)))
		res, err := m.srv.Proof(context.Background(), &proof.ProofRequest{RequestId: rid, Height: h})
		if err != nil {
			// legitimate only when the result did not exist yet in the state the proof is about (height-1)
			q, qerr := w.Primary().Query(context.Background(), &abci.RequestQuery{Path: "/store/oracle/key", Data: oracletypes.ResultStoreKey(oracletypes.RequestID(rid)), Height: h - 1})
			if qerr == nil && len(q.Value) > 0 {
				e.Fail("C12", "proof_service_error", "single", "result %d exists at height %d but the proof service failed for block %d (round %d): %v", rid, h-1, h, target.Commit.Round, err)
				return
			}
			e.St.Probe("c12_proof_unavailable")
			return
		}
		relay, verify, err := ref.SplitSingle(res.Result.EvmProofBytes)
		if err != nil {
			e.Fail("C12", "proof_bytes", "single", "%v", err)
			return
		}
		bb := checkRelay("single", relay)
		if bb == nil {
			return
		}
		bh, r, root, depth, err := ref.VerifyOracleData(verify, encodeBridgeResult)
		if err != nil || !bytes.Equal(root, bb.OracleRoot) || r.RequestID != rid || bh != uint64(h) {
			e.Fail("C12", "oracle_data_proof", "single", "height %d request %d: result leaf hashed up the %d-step path gives %X, oracle store root is %X (err %v)", h, rid, depth, root, bb.OracleRoot, err)
			return
		}
		m.nProofs++
		if depth >= 3 && len(bb.Signers) >= 2 {
			m.nDeep++
		}
		e.St.Trace(fmt.Sprintf("proof(depth%d,sigs%d,round%d)", depth, len(bb.Signers), target.Commit.Round))
		e.St.Covered(fmt.Sprintf("c12.depth%d.sigs%d.round%d", depth, len(bb.Signers), target.Commit.Round))
	}
}

func indexOfVal(vs *cmttypes.ValidatorSet, addr []byte) int {
	for i, v := range vs.Validators {
		if bytes.Equal(v.Address, addr) {
			return i
		}
	}
	return -1
}

func (m *C12) Pending(e *Env) bool { return false }
func (m *C12) Finish(e *Env)       {}
func (m *C12) NonTrivial(e *Env) bool {
	e.St.ProbeN("c12_proofs_verified", m.nProofs)
	e.St.ProbeN("c12_proofs_depth3_2sigs", m.nDeep)
	e.St.ProbeN("c12_multi_proofs", m.nMulti)
	e.St.ProbeN("c12_count_proofs", m.nCount)
	e.St.ProbeN("c12_old_height_queries", m.nOld)
	return m.nDeep > 0
}
