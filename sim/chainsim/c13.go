package chainsim

import (
	"fmt"
	"sort"

	"cosmossdk.io/math"

	sdk "github.com/cosmos/cosmos-sdk/types"
	authtypes "github.com/cosmos/cosmos-sdk/x/auth/types"
	banktypes "github.com/cosmos/cosmos-sdk/x/bank/types"

	"github.com/bandprotocol/chain/v3/pkg/obi"
	"github.com/bandprotocol/chain/v3/pkg/tss"
	"github.com/bandprotocol/chain/v3/testing/testdata"
	bandtsstypes "github.com/bandprotocol/chain/v3/x/bandtss/types"
	oracletypes "github.com/bandprotocol/chain/v3/x/oracle/types"

	"verifsim/world"
)

type bankMeta struct{ Msg *banktypes.MsgSend }

// Ledger is a model of the balances of a tracked set of accounts.
type Ledger struct {
	Bal   map[string]sdk.Coins
	Names map[string]string
}

func NewLedger() *Ledger { return &Ledger{Bal: map[string]sdk.Coins{}, Names: map[string]string{}} }
func (l *Ledger) Track(name string, addr sdk.AccAddress, c sdk.Coins) {
	l.Bal[addr.String()] = c
	l.Names[addr.String()] = name
}
func (l *Ledger) Tracked(a string) bool { _, ok := l.Bal[a]; return ok }
func (l *Ledger) Move(from, to string, c sdk.Coins) {
	if l.Tracked(from) {
		l.Bal[from] = l.Bal[from].Sub(c...)
	}
	if l.Tracked(to) {
		l.Bal[to] = l.Bal[to].Add(c...)
	}
}
func (l *Ledger) Compare(e *Env) (string, bool) {
	ctx := e.Ctx()
	bk := e.App().BankKeeper
	addrs := make([]string, 0, len(l.Bal))
	for a := range l.Bal {
		addrs = append(addrs, a)
	}
	sort.Strings(addrs)
	for _, a := range addrs {
		got := bk.GetAllBalances(ctx, sdk.MustAccAddressFromBech32(a))
		if !got.Equal(l.Bal[a]) {
			return fmt.Sprintf("%s (%s): chain balance %s, ledger model %s", l.Names[a], a, got, l.Bal[a]), false
		}
	}
	return "", true
}

type paidSigning struct {
	BandtssID uint64
	Payer     string
	Fee       sdk.Coins // fee per signer recorded at request time
	CurSid    uint64
	IncSid    uint64
	Done      bool
}

// C13 — service fees exact, within limit, atomic.
type C13 struct {
	L         *Ledger
	inited    bool
	DSFees    map[int64]sdk.Coins
	DSTreas   map[int64]string
	bparams   bandtsstypes.Params
	curGroup  uint64
	bySid     map[uint64]*paidSigning // tss signing id -> record
	reqOrder  []*reqMeta              // accepted oracle requests by id-1
	resultSigned map[uint64]uint64    // request id -> bandtss signing of its result
	escrow    string
	nUnderByOne, nPayout, nPayoutAfterRetry, nReqPaid, nSigPaid, nRejectedFee, nFallenUnpaid int
	WithTSS   bool
}

func (m *C13) Prop() string { return "C13" }

func (m *C13) init(e *Env) {
	m.inited = true
	m.L = NewLedger()
	coins := e.W.Cfg.UserCoins
	if coins.Empty() {
		coins = sdk.NewCoins(sdk.NewInt64Coin("uband", 1_000_000_000_000), sdk.NewInt64Coin("uusd", 1_000_000_000), sdk.NewInt64Coin("uatom", 1_000_000_000))
	}
	for _, u := range e.W.Users {
		m.L.Track(u.Name, u.Addr, coins)
	}
	for id, t := range m.DSTreas {
		m.L.Track(fmt.Sprintf("treasury-ds%d", id), sdk.MustAccAddressFromBech32(t), sdk.NewCoins())
	}
	m.escrow = authtypes.NewModuleAddress(bandtsstypes.ModuleName).String()
	m.L.Track("bandtss-escrow", authtypes.NewModuleAddress(bandtsstypes.ModuleName), sdk.NewCoins())
	m.bySid = map[uint64]*paidSigning{}
	if p, ok := e.Shared["bandtss.genesis.params"].(bandtsstypes.Params); ok {
		m.bparams = p
	}
	if g, ok := e.Shared["bandtss.genesis.current"].(uint64); ok {
		m.curGroup = g
	}
}

func exceeds(cost, limit sdk.Coins) bool {
	for _, c := range cost {
		if c.Amount.GT(limit.AmountOf(c.Denom)) {
			return true
		}
	}
	return false
}

func (m *C13) dataRequestCost(msg *oracletypes.MsgRequestData) (sdk.Coins, map[string]sdk.Coins) {
	var ids []int64
	switch int(msg.OracleScriptID) {
	case scriptEcho:
		var in testdata.Wasm4Input
		if err := obi.Decode(msg.Calldata, &in); err == nil {
			ids = in.IDs
		}
	case scriptSimple, scriptDesc:
		ids = []int64{1, 2, 3}
	case scriptNoRet, scriptTrap, scriptEmpty, scriptProbe:
		ids = []int64{1}
	}
	cost := sdk.NewCoins()
	per := map[string]sdk.Coins{}
	for _, id := range ids {
		f := m.DSFees[id].MulInt(math.NewIntFromUint64(msg.AskCount))
		cost = cost.Add(f...)
		t := m.DSTreas[id]
		per[t] = per[t].Add(f...)
	}
	return cost, per
}

func (m *C13) OnBlock(e *Env, blk *world.BlockRecord) {
	if !m.inited {
		m.init(e)
	}
	ctx := e.Ctx()
	var sh *TSSShadow
	if m.WithTSS {
		sh = getShadow(e)
		sh.Advance(e, blk)
	}
	bparamsAfter := m.bparams
	if m.WithTSS {
		bparamsAfter = e.App().BandtssKeeper.GetParams(ctx)
	}
	for _, tx := range blk.Txs {
		switch meta := tx.Intent.Meta.(type) {
		case *bankMeta:
			if tx.OK() {
				m.L.Move(meta.Msg.FromAddress, meta.Msg.ToAddress, meta.Msg.Amount)
			}
		case *dsEditMeta:
			if tx.OK() {
				// transactions are processed in block order: requests after this one pay the new fee to the new treasury
				m.DSFees[int64(meta.Msg.DataSourceID)] = meta.Msg.Fee
				m.DSTreas[int64(meta.Msg.DataSourceID)] = meta.Msg.Treasury
				e.St.Trace(fmt.Sprintf("edit-ds(%d,fee=%s)", meta.Msg.DataSourceID, meta.Msg.Fee))
			}
		case *reqMeta:
			if infraReject(tx) {
				continue
			}
			cost, per := m.dataRequestCost(meta.Msg)
			over := exceeds(cost, meta.Msg.FeeLimit)
			bal := m.L.Bal[meta.Msg.Sender]
			short := !bal.IsAllGTE(cost) && !cost.Empty()
			if tx.OK() {
				if over {
					e.Fail("C13", "data_fee_exceeds_limit", meta.LimitKind, "data request accepted: cost %s (ask %d) exceeds the fee limit %s", cost, meta.Msg.AskCount, meta.Msg.FeeLimit)
					return
				}
				for t, f := range per {
					m.L.Move(meta.Msg.Sender, t, f)
				}
				m.reqOrder = append(m.reqOrder, meta)
				m.nReqPaid++
				e.St.Trace(fmt.Sprintf("datareq-paid(%s,%d denoms)", meta.LimitKind, len(cost)))
				e.St.Covered("c13.data.accepted." + meta.LimitKind)
			} else {
				feeErr := tx.Result.Codespace == oracletypes.ModuleName && tx.Result.Code == 43
				fundsErr := tx.Result.Codespace == "sdk" && tx.Result.Code == 5
				if feeErr && !over {
					e.Fail("C13", "data_fee_false_rejection", meta.LimitKind, "data request rejected for fee although cost %s is within the limit %s", cost, meta.Msg.FeeLimit)
					return
				}
				if fundsErr && !short {
					e.Fail("C13", "data_fee_false_insufficient_funds", "", "data request rejected for funds although payer holds %s and the cost is %s", bal, cost)
					return
				}
				if feeErr {
					m.nRejectedFee++
					if meta.LimitKind == "one_below" {
						m.nUnderByOne++
					}
					e.St.Trace("datareq-fee-rejected:" + meta.LimitKind)
					e.St.Covered("c13.data.rejected." + meta.LimitKind)
				}
			}
		case *reqSigMeta:
			if infraReject(tx) {
				continue
			}
			thr := uint64(0)
			if sh != nil && m.curGroup != 0 {
				if g := sh.group(e, m.curGroup); g != nil {
					thr = g.Threshold
				}
			}
			costA := mulCoins(m.bparams.FeePerSigner, thr)
			costB := mulCoins(bparamsAfter.FeePerSigner, thr)
			if tx.OK() {
				evs := EventsOfType(ParseEvents(tx.Result.Events), bandtsstypes.EventTypeSigningRequestCreated)
				if len(evs) != 1 {
					e.Fail("C13", "signing_request_event", "", "accepted MsgRequestSignature produced %d creation events", len(evs))
					return
				}
				fee, cost := m.bparams.FeePerSigner, costA
				if evs[0].Get(bandtsstypes.AttributeKeyTotalFee) != costA.String() && evs[0].Get(bandtsstypes.AttributeKeyTotalFee) == costB.String() {
					fee, cost = bparamsAfter.FeePerSigner, costB
				}
				if exceeds(cost, meta.Msg.FeeLimit) {
					e.Fail("C13", "signing_fee_exceeds_limit", meta.Kind, "signature request accepted: fee %s (per signer %s x threshold %d) exceeds the limit %s", cost, fee, thr, meta.Msg.FeeLimit)
					return
				}
				m.L.Move(meta.Msg.Sender, m.escrow, cost)
				ps := &paidSigning{BandtssID: evs[0].U64(bandtsstypes.AttributeKeySigningID), Payer: meta.Msg.Sender, Fee: fee,
					CurSid: evs[0].U64(bandtsstypes.AttributeKeyCurrentGroupSigningID), IncSid: evs[0].U64(bandtsstypes.AttributeKeyIncomingGroupSigningID)}
				if ps.CurSid != 0 {
					m.bySid[ps.CurSid] = ps
					// atomic with the service: the fee is taken only for a signing that has actually been put to a committee. A request
					// for which no committee could be drawn (too few members active with a nonce) is rejected with no transfer.
					if sh == nil {
						// no signing model in this profile
					} else if sg := sh.Signings[ps.CurSid]; (sg == nil || len(sg.Attempts) == 0) && !cost.IsZero() {
						e.Fail("C13", "fee_taken_for_unserved_request", "", "signature request by %s accepted and charged %s, but its signing %d was never assigned to a committee", meta.Msg.Sender, cost, ps.CurSid)
						return
					}
				}
				m.nSigPaid++
				e.St.Trace("sigreq-paid:" + meta.Kind)
				e.St.Covered("c13.sig.accepted." + meta.Kind)
			} else if meta.Kind != "rollback" {
				feeErr := tx.Result.Codespace == bandtsstypes.ModuleName && tx.Result.Code == 3
				if feeErr && !exceeds(costA, meta.Msg.FeeLimit) && !exceeds(costB, meta.Msg.FeeLimit) {
					e.Fail("C13", "signing_fee_false_rejection", meta.Kind, "signature request rejected for fee although %s is within the limit %s", costA, meta.Msg.FeeLimit)
					return
				}
				if feeErr {
					m.nRejectedFee++
					if meta.Kind == "one_below" {
						m.nUnderByOne++
					}
					e.St.Trace("sigreq-fee-rejected:" + meta.Kind)
				}
			}
		}
	}
	// end block: signings created for oracle results are paid by the requester of the data request
	if m.WithTSS {
		for _, ev := range EventsOfType(ParseEvents(blk.Resp.Events), oracletypes.EventTypeResolve) {
			if ev.Get(oracletypes.AttributeKeySigningID) == "" {
				continue
			}
			rid := ev.U64(oracletypes.AttributeKeyID)
			bid := ev.U64(oracletypes.AttributeKeySigningID)
			if rid == 0 || int(rid) > len(m.reqOrder) {
				continue
			}
			payer := m.reqOrder[rid-1].Msg.Sender
			// one data request pays for at most one signature of its result
			if m.resultSigned == nil {
				m.resultSigned = map[uint64]uint64{}
			}
			if prev, dup := m.resultSigned[rid]; dup {
				e.Fail("C13", "result_signing_charged_twice", "", "data request %d: a second signing (%d, after %d) of its result was created and charged to %s", rid, bid, prev, payer)
				return
			}
			m.resultSigned[rid] = bid
			bs, err := e.App().BandtssKeeper.GetSigning(ctx, bandtsstypes.SigningID(bid))
			if err != nil {
				continue
			}
			thr := uint64(0)
			if g := sh.group(e, m.curGroup); g != nil {
				thr = g.Threshold
			}
			cost := mulCoins(bs.FeePerSigner, thr)
			if !bs.FeePerSigner.Equal(m.bparams.FeePerSigner) && !bs.FeePerSigner.Equal(bparamsAfter.FeePerSigner) {
				e.Fail("C13", "signing_fee_recorded", "", "bandtss signing %d records fee per signer %s; parameter is %s", bid, bs.FeePerSigner, m.bparams.FeePerSigner)
				return
			}
			// data-source fees plus the signing fee stay within the request's fee limit
			dataCost, _ := m.dataRequestCost(m.reqOrder[rid-1].Msg)
			if exceeds(dataCost.Add(cost...), m.reqOrder[rid-1].Msg.FeeLimit) {
				e.Fail("C13", "request_total_exceeds_limit", "", "data request %d: data-source fees %s plus signing fee %s exceed its fee limit %s", rid, dataCost, cost, m.reqOrder[rid-1].Msg.FeeLimit)
				return
			}
			m.L.Move(payer, m.escrow, cost)
			ps := &paidSigning{BandtssID: bid, Payer: payer, Fee: bs.FeePerSigner, CurSid: uint64(bs.CurrentGroupSigningID), IncSid: uint64(bs.IncomingGroupSigningID)}
			if ps.CurSid != 0 {
				m.bySid[ps.CurSid] = ps
			}
			e.St.Trace("oracle-result-signing-paid")
		}
		// payouts: exactly the assigned members of the final attempt of a paid current-group signing
		for _, op := range sh.J.EndOps {
			ps := m.bySid[op.Sid]
			if ps == nil || ps.Done {
				continue
			}
			switch op.Kind {
			case "success":
				ps.Done = true
				sg := sh.Signings[op.Sid]
				for _, am := range sg.Cur().Members {
					m.L.Move(m.escrow, am.Addr, ps.Fee)
				}
				if !ps.Fee.IsZero() {
					m.nPayout++
					if sg.Cur().N > 1 {
						m.nPayoutAfterRetry++
					}
				}
				e.St.Trace(fmt.Sprintf("payout(n%d,a%d)", len(sg.Cur().Members), sg.Cur().N))
			case "failed":
				ps.Done = true
				m.nFallenUnpaid++
				e.St.Trace("fallen-unpaid")
			}
		}
		// the current group can change at the end of a block
		m.curGroup = uint64(e.App().BandtssKeeper.GetCurrentGroup(ctx).GroupID)
		m.bparams = bparamsAfter
	}
	if d, ok := m.L.Compare(e); !ok {
		e.Fail("C13", "ledger", "", "%s at height %d", d, blk.Height)
		return
	}
	// escrow covers the fees of all unfinished paid signings
	if m.WithTSS {
		need := sdk.NewCoins()
		for _, sid := range sortedPaid(m.bySid) {
			ps := m.bySid[sid]
			if !ps.Done {
				if sg := sh.Signings[sid]; sg != nil && sg.Cur() != nil {
					need = need.Add(mulCoins(ps.Fee, uint64(len(sg.Cur().Members)))...)
				}
			}
		}
		if esc := m.L.Bal[m.escrow]; !esc.IsAllGTE(need) {
			e.Fail("C13", "escrow_short", "", "escrow holds %s but unfinished paid signings need %s", esc, need)
			return
		}
	}
	_ = tss.GroupID(0)
}

func sortedPaid(m map[uint64]*paidSigning) []uint64 {
	o := make([]uint64, 0, len(m))
	for k := range m {
		o = append(o, k)
	}
	sort.Slice(o, func(i, j int) bool { return o[i] < o[j] })
	return o
}

func (m *C13) Pending(e *Env) bool { return false }
func (m *C13) Finish(e *Env)       {}
func (m *C13) NonTrivial(e *Env) bool {
	e.St.ProbeN("c13_data_requests_paid", m.nReqPaid)
	e.St.ProbeN("c13_signing_requests_paid", m.nSigPaid)
	e.St.ProbeN("c13_fee_rejections", m.nRejectedFee)
	e.St.ProbeN("c13_rejected_one_unit_under", m.nUnderByOne)
	e.St.ProbeN("c13_payouts", m.nPayout)
	e.St.ProbeN("c13_payouts_after_retry", m.nPayoutAfterRetry)
	e.St.ProbeN("c13_fallen_unpaid", m.nFallenUnpaid)
	return m.nUnderByOne > 0 && (m.nPayout > 0 || m.nReqPaid > 0)
}

func mulCoins(c sdk.Coins, n uint64) sdk.Coins {
	if n == 0 || c.Empty() {
		return sdk.NewCoins()
	}
	return c.MulInt(math.NewIntFromUint64(n))
}

// dsEditMeta marks a MsgEditDataSource sent by the data sources' owner.
type dsEditMeta struct{ Msg *oracletypes.MsgEditDataSource }

// DSEditor is the owner of the genesis data sources changing their fee (to another amount, to nothing and back) and their
// treasury while requests are being made: what a request costs is the fee in force when it executes, not the one at genesis.
type DSEditor struct {
	Owner      *world.Account
	Fees       []sdk.Coins
	Treasuries []*world.Account
	N          int
	Rate       int
}

func (a *DSEditor) OnBlock(e *Env, blk *world.BlockRecord) {}
func (a *DSEditor) Act(e *Env) {
	if e.Draining || !e.Ch.Bool("dsedit", a.Rate) {
		return
	}
	id := 1 + e.Ch.Intn("dsedit.id", a.N)
	fee := a.Fees[e.Ch.Intn("dsedit.fee", len(a.Fees))]
	tr := a.Treasuries[e.Ch.Intn("dsedit.treasury", len(a.Treasuries))]
	msg := oracletypes.NewMsgEditDataSource(oracletypes.DataSourceID(id), oracletypes.DoNotModify, oracletypes.DoNotModify, oracletypes.DoNotModifyBytes, fee, tr.Addr, a.Owner.Addr, a.Owner.Addr)
	e.St.Fault("data_source_fee_or_treasury_edited")
	if fee.Empty() {
		e.St.Fault("data_source_fee_edited_to_nothing")
	}
	e.W.Submit(&world.Intent{Signer: a.Owner, Msgs: []sdk.Msg{msg}, Tag: "edit_ds", Meta: &dsEditMeta{Msg: msg}})
}
