package chainsim

import (
	"math/big"
	"bytes"
	"fmt"
	"sort"

	"github.com/bandprotocol/chain/v3/pkg/tss"
	tsstypes "github.com/bandprotocol/chain/v3/x/tss/types"

	"verifsim/ref"
	"verifsim/world"
)

// ---------------------------------------------------------------------------------------------
// C05 — a nonce pair is used at most once, in FIFO order

type C05 struct {
	nRetryAssign, nReset, nRejectedDE, nAssign, nRollback int
}

func (m *C05) Prop() string { return "C05" }

func (m *C05) OnBlock(e *Env, blk *world.BlockRecord) {
	sh := getShadow(e)
	sh.Advance(e, blk)
	j := sh.J
	for _, d := range j.DETx {
		if infraReject(d.Tx) {
			continue
		}
		total := uint64(d.QueueLen + len(d.Meta.DEs))
		want := total <= d.MaxBefore
		alt := total <= d.MaxAfter
		if d.Tx.OK() != want && d.Tx.OK() != alt {
			e.Fail("C05", "de_limit", "", "MsgSubmitDEs by %s: queue %d + %d submitted, max_de_size %d: model accept=%v, chain code=%d %q",
				d.Meta.Member.Acc.Name, d.QueueLen, len(d.Meta.DEs), d.MaxBefore, want, d.Tx.Result.Code, d.Tx.Result.Log)
			return
		}
		if !d.Tx.OK() {
			m.nRejectedDE++
			e.St.Trace("de-rejected")
		} else {
			e.St.Trace(fmt.Sprintf("de+%d", len(d.Meta.DEs)))
		}
	}
	for _, tx := range blk.Txs {
		if rm, ok := tx.Intent.Meta.(*resetMeta); ok && tx.OK() {
			_ = rm
			m.nReset++
			e.St.Trace("de-reset")
		}
		// committees are drawn from members that have a queued nonce, so taking a committee member's next nonce can never fail:
		// a transaction that dies with "DE not found" means a member without a queued nonce was put on a committee
		if !tx.OK() && tx.Result.Codespace == tsstypes.ModuleName && tx.Result.Code == tsstypes.ErrDENotFound.ABCICode() {
			if _, isDE := tx.Intent.Meta.(*deMeta); !isDE {
				e.Fail("C05", "member_without_nonce_on_committee", "", "transaction %s failed with %q: a committee was drawn that contains a member without a queued nonce", tx.Intent.Tag, firstLine(tx.Result.Log))
				return
			}
		}
		if rq, ok := tx.Intent.Meta.(*reqSigMeta); ok && !tx.OK() && rq.Kind == "rollback" {
			m.nRollback++
			e.St.Trace("req-rollback")
		}
	}
	for _, a := range j.Assigns {
		m.nAssign++
		if a.Att.N > 1 {
			m.nRetryAssign++
		}
		e.St.Trace(fmt.Sprintf("assign(a%d,n%d,eb=%v)", a.Att.N, len(a.Att.Members), a.InEndBlock))
		att := a.Att.N
		if att > 4 {
			att = 4
		}
		for i, am := range a.Att.Members {
			ql := len(sh.Queues[am.Addr])
			if ql > 3 {
				ql = 3
			}
			// coverage measure: (attempt number, committee size, tx or end block, nonces the member has left afterwards)
			e.St.Covered(fmt.Sprintf("c05.assign.att%d.n%d.endblock=%v.left%d", att, len(a.Att.Members), a.InEndBlock, ql))
			where := fmt.Sprintf("signing %d attempt %d member %d (%s)", a.Sig.ID, a.Att.N, am.MemberID, am.Addr)
			if a.Reused[i] != "" {
				e.Fail("C05", "de_reused", "", "%s was assigned nonce pair D=%X.. which was already assigned to %s", where, am.PubD[:6], a.Reused[i])
				return
			}
			if a.WasDead[i] {
				e.Fail("C05", "de_assigned_after_reset", "", "%s was assigned a nonce pair that the member had reset", where)
				return
			}
			if !a.HeadOK[i] {
				e.Fail("C05", "de_not_queue_head", "", "%s was assigned D=%X.. which is not the head of the member's registered queue (model queue length %d)",
					where, am.PubD[:6], len(sh.Queues[am.Addr]))
				return
			}
		}
	}
	for _, p := range j.Problems {
		e.Fail("C05", "assignment_bookkeeping", "", "%s", p)
		return
	}
	// on-chain queues equal the model queues
	ctx := e.Ctx()
	tk := e.App().TSSKeeper
	for _, mem := range sh.Pool.Members {
		addr := mem.Acc.Addr.String()
		q := tk.GetDEQueue(ctx, mem.Acc.Addr)
		mq := sh.Queues[addr]
		if int(q.Tail-q.Head) != len(mq) {
			e.Fail("C05", "queue_equality", "length", "%s: on-chain queue holds %d pairs (head %d tail %d), model %d at height %d", mem.Acc.Name, q.Tail-q.Head, q.Head, q.Tail, len(mq), blk.Height)
			return
		}
		for i := range mq {
			de, err := tk.GetDE(ctx, mem.Acc.Addr, q.Head+uint64(i))
			if err != nil || !bytes.Equal(de.PubD, mq[i].PubD) || !bytes.Equal(de.PubE, mq[i].PubE) {
				e.Fail("C05", "queue_equality", "content", "%s: on-chain queue entry %d differs from the model (err=%v)", mem.Acc.Name, i, err)
				return
			}
		}
	}
}

func (m *C05) Pending(e *Env) bool { return false }
func (m *C05) Finish(e *Env)       {}
func (m *C05) NonTrivial(e *Env) bool {
	e.St.ProbeN("c05_assignments", m.nAssign)
	e.St.ProbeN("c05_retry_assignments", m.nRetryAssign)
	e.St.ProbeN("c05_resets", m.nReset)
	e.St.ProbeN("c05_de_rejected", m.nRejectedDE)
	e.St.ProbeN("c05_rollback_requests", m.nRollback)
	return m.nRetryAssign > 0 && m.nAssign > 2 && (m.nReset > 0 || m.nRollback > 0 || m.nRejectedDE > 0)
}

// ---------------------------------------------------------------------------------------------
// C03 — partial signatures accepted iff correct; published group signature verifies

type C03 struct {
	nCompleted, nRejectedCorrupt, nAccepted int
	published []uint64 // completed signings whose signature the query service must keep serving
	nServed   int
}

func (m *C03) Prop() string { return "C03" }

func memberPubKey(sh *TSSShadow, e *Env, gid, mid uint64) []byte {
	g := sh.group(e, gid)
	if g == nil {
		return nil
	}
	for _, mm := range g.Members {
		if uint64(mm.ID) == mid {
			return mm.PubKey
		}
	}
	return nil
}

func (m *C03) OnBlock(e *Env, blk *world.BlockRecord) {
	sh := getShadow(e)
	sh.Advance(e, blk)
	j := sh.J
	if list, _ := e.Shared["c03.unsignable"].([]string); len(list) > 0 {
		// a member with its key share and the assigned nonce pair could not build a share with the repository's own signing
		// routines: the attempt can never gather "all assigned members", so no signature will ever be published for it
		e.Fail("C03", "assigned_committee_unsignable", "", "%s", list[0])
		return
	}
	// "the chain publishes a group signature": what clients read is the signing-result query. It must keep returning the
	// signature of every completed signing, also after the attempt's interim data has been cleaned up.
	if n := len(m.published); n > 40 {
		m.published = m.published[n-40:]
	}
	for _, sid := range m.published {
		cs, err := e.App().TSSKeeper.GetSigning(e.Ctx(), tss.SigningID(sid))
		if err != nil || len(cs.Signature) < 65 {
			continue // the per-completion checks below report a missing stored signature
		}
		res, err := e.App().TSSKeeper.GetSigningResult(e.Ctx(), tss.SigningID(sid))
		if err != nil || res == nil || res.EVMSignature == nil || !bytes.Equal(res.EVMSignature.Signature, cs.Signature[33:]) {
			e.Fail("C03", "published_signature_not_served", "", "signing %d succeeded, but the signing-result query at height %d does not return its signature (err %v)", sid, blk.Height, err)
			return
		}
		m.nServed++
	}
	ctx := e.Ctx()
	tk := e.App().TSSKeeper
	for _, js := range j.SigTx {
		if infraReject(js.Tx) {
			continue
		}
		want, why := false, ""
		switch {
		case js.Sig == nil:
			why = "unknown_signing"
		case !js.Waiting:
			why = "not_waiting"
		case js.Assigned == nil:
			why = "not_assigned"
		case js.Already:
			why = "already_signed"
		default:
			pk := memberPubKey(sh, e, js.Sig.GroupID, js.Assigned.MemberID)
			err := ref.VerifyPartial(js.GroupNonce, js.Sig.GroupPubKey, js.Sig.Message, js.Assigned.MemberID, js.Att.IDs(), js.Assigned.PubNonce, pk, js.Meta.Msg.Signature)
			if err != nil {
				why = fmt.Sprintf("bad_share:%v (gn=%d gk=%d pn=%d pk=%d)", err, len(js.GroupNonce), len(js.Sig.GroupPubKey), len(js.Assigned.PubNonce), len(pk))
			} else {
				want, why = true, "ok"
			}
		}
		if want != js.Tx.OK() {
			e.Fail("C03", "share_acceptance", js.Meta.Kind, "MsgSubmitSignature(signing %d, member %d, kind %s): reference says accept=%v (%s), chain code=%d %q",
				js.Meta.Msg.SigningID, js.Meta.Msg.MemberID, js.Meta.Kind, want, why, js.Tx.Result.Code, js.Tx.Result.Log)
			return
		}
		if want {
			m.nAccepted++
			e.St.Trace("sig-ok")
		} else {
			if js.Meta.Kind != "honest" {
				m.nRejectedCorrupt++
			}
			e.St.Trace("sig-rej:" + js.Meta.Kind)
			e.St.Covered("c03.reject." + js.Meta.Kind)
		}
	}
	for _, sg := range j.Completed {
		cs, err := tk.GetSigning(ctx, tss.SigningID(sg.ID))
		if err != nil || cs.Status != tsstypes.SIGNING_STATUS_SUCCESS {
			e.Fail("C03", "signature_published", "", "signing %d: all %d assigned members submitted valid shares in block %d but status is %v", sg.ID, len(sg.Cur().Members), blk.Height, cs.Status)
			return
		}
		if err := ref.VerifyGroupSignature(cs.GroupPubKey, cs.Message, cs.Signature); err != nil {
			e.Fail("C03", "group_signature_invalid", "", "signing %d: published signature does not verify under the group key for the signing's message: %v", sg.ID, err)
			return
		}
		if !bytes.Equal(cs.Message, sg.Message) || !bytes.Equal(cs.GroupPubKey, sg.GroupPubKey) && len(sg.GroupPubKey) > 0 {
			e.Fail("C03", "signature_message_binding", "", "signing %d: message or group key changed between creation and completion", sg.ID)
			return
		}
		m.nCompleted++
		m.published = append(m.published, sg.ID)
		att := sg.Cur()
		maxID := uint64(0)
		for _, id := range att.IDs() {
			if id > maxID {
				maxID = id
			}
		}
		g := sh.group(e, sg.GroupID)
		e.St.Trace(fmt.Sprintf("completed(n%d,a%d)", len(att.Members), att.N))
		if g != nil {
			e.St.Covered(fmt.Sprintf("c03.group.size%d.thr%d.ids%v.gt20=%v", len(g.Members), g.Threshold, att.IDs(), maxID > 20))
		}
	}
	// a signature never appears otherwise; partial-signature store equals the accepted set
	for _, sid := range sortedSigIDs(sh.Signings) {
		sg := sh.Signings[sid]
		if sg.Status == sigSuccess && sg.TerminalAt < blk.Height-2 {
			continue
		}
		cs, err := tk.GetSigning(ctx, tss.SigningID(sid))
		if err != nil {
			continue
		}
		if sg.CompletedAt == 0 && len(cs.Signature) != 0 {
			e.Fail("C03", "signature_without_all_shares", "", "signing %d carries a signature although only %d of %d assigned members have an accepted share", sid, len(sg.Cur().Submitted), len(sg.Cur().Members))
			return
		}
		if sg.Status == sigWaiting {
			att := sg.Cur()
			if att == nil || att.Processed {
				continue
			}
			for _, am := range att.Members {
				has := tk.HasPartialSignature(ctx, tss.SigningID(sid), att.N, tss.MemberID(am.MemberID))
				if has != att.Submitted[am.MemberID] {
					e.Fail("C03", "partial_signature_store", "", "signing %d attempt %d member %d: partial signature stored=%v, accepted in model=%v", sid, att.N, am.MemberID, has, att.Submitted[am.MemberID])
					return
				}
			}
		}
	}
}

func sortedSigIDs(m map[uint64]*mSigning) []uint64 {
	o := make([]uint64, 0, len(m))
	for k := range m {
		o = append(o, k)
	}
	sort.Slice(o, func(i, j int) bool { return o[i] < o[j] })
	return o
}

func (m *C03) Pending(e *Env) bool { return false }
func (m *C03) Finish(e *Env)       {}
func (m *C03) NonTrivial(e *Env) bool {
	e.St.ProbeN("c03_signings_completed", m.nCompleted)
	e.St.ProbeN("c03_corrupt_shares_rejected", m.nRejectedCorrupt)
	e.St.ProbeN("c03_shares_accepted", m.nAccepted)
	return m.nCompleted > 0 && m.nRejectedCorrupt > 0
}

// ---------------------------------------------------------------------------------------------
// C10 — every signing terminates; time-outs are timely; idle members penalised

type C10 struct {
	nTimeoutRetry, nFallen, nSuccessAfterRetry, nSuccess int
	skippedPenaltyChecks                                 int
}

func (m *C10) Prop() string { return "C10" }

func (m *C10) OnBlock(e *Env, blk *world.BlockRecord) {
	sh := getShadow(e)
	sh.Advance(e, blk)
	j := sh.J
	ctx := e.Ctx()
	tk := e.App().TSSKeeper
	h := blk.Height

	// new attempts: stored expiry = creation + signing period in force
	for _, a := range j.Assigns {
		sa, err := tk.GetSigningAttempt(ctx, tss.SigningID(a.Sig.ID), a.Att.N)
		if err != nil {
			e.Fail("C10", "attempt_not_persisted", "", "signing %d attempt %d announced by event but not stored", a.Sig.ID, a.Att.N)
			return
		}
		// exact integers: creation height + signing period, whatever the period's magnitude (a sum that wraps is a wrong expiry)
		stored := new(big.Int).SetUint64(sa.ExpiredHeight)
		wantA := new(big.Int).Add(big.NewInt(a.Att.Created), new(big.Int).SetUint64(j.ParamsBefore.SigningPeriod))
		wantB := new(big.Int).Add(big.NewInt(a.Att.Created), new(big.Int).SetUint64(j.ParamsAfter.SigningPeriod))
		if stored.Cmp(wantA) != 0 && stored.Cmp(wantB) != 0 {
			e.Fail("C10", "attempt_expiry_height", "", "signing %d attempt %d created at %d expires at %d; signing_period is %d", a.Sig.ID, a.Att.N, a.Att.Created, sa.ExpiredHeight, j.ParamsBefore.SigningPeriod)
			return
		}
		a.Att.Expired = 1<<63 - 1 // beyond any height a run reaches
		if stored.IsInt64() {
			a.Att.Expired = stored.Int64()
		}
	}
	// completion in this block => SUCCESS at this block end
	for _, sg := range j.Completed {
		cs, err := tk.GetSigning(ctx, tss.SigningID(sg.ID))
		if err != nil || cs.Status != tsstypes.SIGNING_STATUS_SUCCESS || sg.SuccessEvents != 1 {
			e.Fail("C10", "success_when_all_submitted", "", "signing %d: last assigned share accepted in block %d but status=%v success events=%d", sg.ID, h, cs.Status, sg.SuccessEvents)
			return
		}
		m.nSuccess++
		if sg.Cur().N > 1 {
			m.nSuccessAfterRetry++
		}
		e.St.Trace(fmt.Sprintf("success(a%d)", sg.Cur().N))
	}
	// time-outs of this block
	expectedPenalised := map[string]bool{}
	for _, t := range j.Timeouts {
		if t.Att.Complete() {
			e.Fail("C10", "timeout_of_complete_attempt", "", "signing %d attempt %d was retried/failed although all assigned members had submitted", t.Sig.ID, t.Att.N)
			return
		}
		if h < t.Att.Expired {
			e.Fail("C10", "timeout_early", "", "signing %d attempt %d (created %d, period until %d) timed out at height %d", t.Sig.ID, t.Att.N, t.Att.Created, t.Att.Expired, h)
			return
		}
		stable := sh.ParamChangedAt < m.oldestQueued(sh, t.Att.Created)
		if stable && h != t.Att.Expired {
			e.Fail("C10", "timeout_late", "", "signing %d attempt %d should time out at %d (parameter unchanged) but did at %d", t.Sig.ID, t.Att.N, t.Att.Expired, h)
			return
		}
		for _, addr := range t.Idle {
			k := fmt.Sprintf("%s/%d", addr, t.Sig.GroupID)
			if act, ok := j.BandBefore[k]; (ok && act) || j.ActivatedTx[k] {
				expectedPenalised[k] = true
			}
		}
		// retry decision
		canA := t.Att.N+1 <= j.ParamsBefore.MaxSigningAttempt && uint64(t.Avail) >= t.Threshold
		canB := t.Att.N+1 <= j.ParamsAfter.MaxSigningAttempt && uint64(t.Avail) >= t.Threshold
		if t.Retried != canA && t.Retried != canB {
			e.Fail("C10", "retry_decision", fmt.Sprintf("retried=%v", t.Retried), "signing %d attempt %d timed out: attempt limit %d, %d available members, threshold %d => new attempt expected=%v, chain retried=%v failed=%v",
				t.Sig.ID, t.Att.N, j.ParamsBefore.MaxSigningAttempt, t.Avail, t.Threshold, canA, t.Retried, t.Failed)
			return
		}
		if t.Retried {
			m.nTimeoutRetry++
			e.St.Trace(fmt.Sprintf("timeout-retry(a%d,idle%d)", t.Att.N, len(t.Idle)))
		} else {
			m.nFallen++
			e.St.Trace(fmt.Sprintf("fallen(a%d,avail%d)", t.Att.N, t.Avail))
		}
		e.St.Covered(fmt.Sprintf("c10.timeout.a%d.idle%d.retried=%v", t.Att.N, len(t.Idle), t.Retried))
	}
	// penalties: exactly the idle members (that are active members of the owning module)
	if !j.MembershipChanged {
		for k := range expectedPenalised {
			if !j.Deactivated[k] {
				e.Fail("C10", "idle_member_not_penalised", "", "member %s was assigned, did not submit before the time-out at height %d, and stayed active", k, h)
				return
			}
		}
		for k := range j.Deactivated {
			if !expectedPenalised[k] {
				e.Fail("C10", "non_idle_member_penalised", "", "member %s was deactivated at height %d but was not an idle assigned member of a timed-out attempt", k, h)
				return
			}
		}
	} else {
		m.skippedPenaltyChecks++
		e.St.Probe("c10_penalty_check_skipped_membership_change")
	}
	// attempts that must have been processed by now
	for _, sid := range sortedSigIDs(sh.Signings) {
		sg := sh.Signings[sid]
		if sg.TerminalAt != 0 && sg.TerminalAt < h-int64(j.ParamsAfter.SigningPeriod)-12 {
			continue
		}
		cs, err := tk.GetSigning(ctx, tss.SigningID(sid))
		if err != nil {
			e.Fail("C10", "signing_disappeared", "", "signing %d not found", sid)
			return
		}
		// status monotone
		want := map[int]tsstypes.SigningStatus{sigWaiting: tsstypes.SIGNING_STATUS_WAITING, sigSuccess: tsstypes.SIGNING_STATUS_SUCCESS, sigFallen: tsstypes.SIGNING_STATUS_FALLEN}[sg.Status]
		if cs.Status != want {
			e.Fail("C10", "status", "", "signing %d: chain status %v, history of events says %v (success events %d, failed events %d)", sid, cs.Status, want, sg.SuccessEvents, sg.FailedEvents)
			return
		}
		if sg.SuccessEvents+sg.FailedEvents > 1 {
			e.Fail("C10", "owner_notified_once", "", "signing %d: %d success and %d failed events", sid, sg.SuccessEvents, sg.FailedEvents)
			return
		}
		if cur := sg.Cur(); cur != nil && cs.CurrentAttempt != cur.N {
			e.Fail("C10", "attempt_number", "", "signing %d: chain current attempt %d, model %d", sid, cs.CurrentAttempt, cur.N)
			return
		}
		for _, att := range sg.Attempts {
			if att.Processed {
				continue
			}
			mustBeGone := att.TimedOut
			stable := sh.ParamChangedAt < m.oldestQueued(sh, att.Created)
			if !att.TimedOut && h >= att.Expired && att.Expired > 0 && stable {
				if att.Complete() {
					mustBeGone = true
				} else if sg.Status == sigWaiting {
					e.Fail("C10", "timeout_missed", "", "signing %d attempt %d expired at %d with %d/%d shares but was not timed out by height %d", sid, att.N, att.Expired, len(att.Submitted), len(att.Members), h)
					return
				}
			}
			if mustBeGone {
				if _, err := tk.GetSigningAttempt(ctx, tss.SigningID(sid), att.N); err == nil {
					e.Fail("C10", "interim_data_remains", "attempt", "signing %d attempt %d: expiry processed but the attempt record is still stored", sid, att.N)
					return
				}
				if n := tk.GetPartialSignatureCount(ctx, tss.SigningID(sid), att.N); n != 0 || len(tk.GetPartialSignatures(ctx, tss.SigningID(sid), att.N)) != 0 {
					e.Fail("C10", "interim_data_remains", "partial_signatures", "signing %d attempt %d: expiry processed but partial signatures remain", sid, att.N)
					return
				}
				att.Processed = true
			}
		}
	}
	// time deadlines for the conductor: none (heights only)
}

// oldestQueued returns the creation height of the oldest attempt still unprocessed (or created).
func (m *C10) oldestQueued(sh *TSSShadow, created int64) int64 {
	old := created
	for _, sg := range sh.Signings {
		for _, a := range sg.Attempts {
			if !a.Processed && a.Created < old {
				old = a.Created
			}
		}
	}
	return old
}

func (m *C10) Pending(e *Env) bool {
	for _, sg := range getShadow(e).Signings {
		// a signing whose current attempt ends far beyond the run (a huge signing period set by governance) is not waited for
		if sg.Status == sigWaiting && sg.Cur().Expired < e.W.Height+300 {
			return true
		}
	}
	return false
}

func (m *C10) Finish(e *Env) {
	if !e.Draining {
		return
	}
	for _, sid := range sortedSigIDs(getShadow(e).Signings) {
		sg := getShadow(e).Signings[sid]
		if sg.Status == sigWaiting {
			// bounded liveness: the current attempt ends at its expiry height and every further attempt the limit allows lasts one
			// signing period; only a signing still open beyond that bound is overdue (governance may have made the period or the
			// limit larger than any run, then nothing is due yet)
			tp := e.App().TSSKeeper.GetParams(e.Ctx())
			cur := sg.Cur()
			bound := big.NewInt(cur.Expired)
			if tp.MaxSigningAttempt > cur.N {
				more := new(big.Int).Mul(new(big.Int).SetUint64(tp.MaxSigningAttempt-cur.N), new(big.Int).SetUint64(tp.SigningPeriod))
				bound.Add(bound, more)
			}
			if big.NewInt(e.W.Height).Cmp(bound) <= 0 {
				e.St.Probe("c10_signing_open_at_end_but_not_yet_due")
				continue
			}
			e.Fail("C10", "liveness_terminal", "", "signing %d (created %d, attempt %d) still WAITING at height %d after faults stopped", sid, sg.Created, sg.Cur().N, e.W.Height)
			return
		}
	}
}

func (m *C10) NonTrivial(e *Env) bool {
	e.St.ProbeN("c10_timeout_retry", m.nTimeoutRetry)
	e.St.ProbeN("c10_fallen", m.nFallen)
	e.St.ProbeN("c10_success", m.nSuccess)
	e.St.ProbeN("c10_success_after_retry", m.nSuccessAfterRetry)
	return m.nTimeoutRetry > 0 && m.nSuccess > 0 && (m.nFallen > 0 || m.nSuccessAfterRetry > 0)
}
