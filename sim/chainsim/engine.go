// Package chainsim is the chain-level engine: real BandApp replicas driven by the conductor, with
// simulated actors creating transactions and per-property monitors checking reference models.
package chainsim

import (
	"fmt"
	"os"
	"sort"
	"strconv"
	"strings"
	"time"

	abci "github.com/cometbft/cometbft/abci/types"

	sdk "github.com/cosmos/cosmos-sdk/types"

	band "github.com/bandprotocol/chain/v3/app"

	"verifsim/core"
	"verifsim/world"
)

// Actor creates transactions before each block and observes each committed block.
type Actor interface {
	Act(e *Env)
	OnBlock(e *Env, blk *world.BlockRecord)
}

// Monitor checks one property.
type Monitor interface {
	Prop() string
	OnBlock(e *Env, blk *world.BlockRecord)
	// Pending reports whether liveness obligations are still open (used by the drain phase).
	Pending(e *Env) bool
	Finish(e *Env)
	NonTrivial(e *Env) bool
}

type Env struct {
	guidanceLost bool
	W     *world.World
	Ch    *core.Chooser
	Log   *core.Log
	St    *core.Stats
	Prop  string
	Seed  uint64
	Viol  *core.Violation
	Actors   []Actor
	Monitors []Monitor
	Draining bool
	Step     int
	MaxSteps int
	DrainMax int
	Replicas int
	// shared model state published by actors for monitors (and vice versa)
	Shared map[string]any
	// human description of the configuration drawn
	ConfigDesc []string
}

func (e *Env) Fail(prop, invariant, trigger, format string, a ...any) {
	if e.Viol != nil {
		return
	}
	if prop != e.Prop && prop != "C02" {
		// monitors of other properties ride along for triage only
		e.St.Probe("other_property_alarm:" + prop + "/" + invariant)
		return
	}
	key := prop + "/" + invariant
	if trigger != "" {
		key += "/" + trigger
	}
	e.Viol = &core.Violation{Property: prop, Invariant: invariant, Key: key, Detail: fmt.Sprintf(format, a...), Height: e.W.Height}
	e.Log.Add("VIOLATION %s: %s", key, e.Viol.Detail)
}

func (e *Env) App() *band.BandApp { return e.W.Primary() }
func (e *Env) Ctx() sdk.Context   { return e.W.ReadCtx() }
func (e *Env) Desc(format string, a ...any) {
	e.ConfigDesc = append(e.ConfigDesc, fmt.Sprintf(format, a...))
}

// Submit queues a transaction.
func (e *Env) Submit(signer *world.Account, tag string, meta any, msgs ...sdk.Msg) *world.Intent {
	return e.W.Submit(&world.Intent{Signer: signer, Msgs: msgs, Tag: tag, Meta: meta})
}

// ---------------------------------------------------------------------------------------------

// RunOne executes one simulated history.
func RunOne(o core.RunOpts) (res *core.RunResult) {
	var ch *core.Chooser
	if o.Tape != nil {
		ch = core.NewReplayer(o.Tape)
	} else {
		ch = core.NewExplorer(o.Seed)
	}
	lg := &core.Log{Keep: o.KeepLog, MaxKeep: 4000}
	st := core.NewStats()
	st.Only = o.Prop
	res = &core.RunResult{Seed: o.Seed, Prop: o.Prop, Stats: st}
	e := &Env{Ch: ch, Log: lg, St: st, Prop: o.Prop, Seed: o.Seed, Shared: map[string]any{}}
	scratch, err := os.MkdirTemp(o.Scratch, "run")
	if err != nil {
		res.Err = err.Error()
		return res
	}
	defer os.RemoveAll(scratch)
	defer func() {
		if r := recover(); r != nil {
			// a panic inside harness code (not inside FinalizeBlock, which is recovered separately)
			res.Err = fmt.Sprintf("harness panic: %v\n%s", r, stackTrace())
		}
		res.Tape = ch.Tape
		res.LogHash = lg.Hash()
		res.LogLines = lg.Lines
		res.TraceHash = st.TraceHash()
		res.Trace = st.TraceSample(60)
		res.Config = e.ConfigDesc
		if e.W != nil {
			res.Blocks = e.W.Height - (e.W.Cfg.InitialHeight - 1)
			res.Txs = e.W.TxCount
			res.SimSeconds = e.W.SimSeconds
			e.W.Close()
		}
	}()

	if err := setupProfile(e, o); err != nil {
		res.Err = "setup: " + err.Error()
		return res
	}
	w := e.W
	for e.Step = 0; e.Step < e.MaxSteps+e.DrainMax; e.Step++ {
		if e.Step >= e.MaxSteps {
			if !e.Draining {
				e.Draining = true
				w.F = world.Faults{} // faults stop
				lg.Add("drain phase begins")
			}
			pending := false
			for _, m := range e.Monitors {
				if m.Prop() == e.Prop && m.Pending(e) {
					pending = true
				}
			}
			if !pending {
				break
			}
		}
		for _, a := range e.Actors {
			a.Act(e)
		}
		maxTxs := 0
		if ch.Bool("block.single", 250) {
			maxTxs = 1
		}
		blk := w.NextBlock(world.BlockOpts{MaxTxs: maxTxs})
		if w.Halt != nil {
			res.Halt = w.Halt
			site := haltSite(w.Halt)
			if a := anchoredIn(e.Prop, w.Halt.Stack); a != "" && e.Prop != "C02" {
				// block execution died inside code this property is anchored in: the property's guarantee is not delivered
				e.Fail(e.Prop, "halt_in_anchored_code", site, "%s panicked on replica %d at height %d inside %s: %s", w.Halt.Phase, w.Halt.Replica, w.Halt.Height, a, firstLine(w.Halt.Err))
				break
			}
			e.Fail("C02", "halt", site, "%s panicked/erred on replica %d at height %d: %s", w.Halt.Phase, w.Halt.Replica, w.Halt.Height, firstLine(w.Halt.Err))
			break
		}
		if w.Divergence != "" {
			if e.Prop == "C09" && w.DivergedResp[0] != nil {
				// two nodes executed the same block on the same state: if they selected different committees, that is C09's
				if d := selectionDiff(w.DivergedResp[0], w.DivergedResp[1]); d != "" {
					e.Fail("C09", "selection_differs_between_replicas", "", "%s; %s", w.Divergence, d)
					break
				}
			}
			e.Fail("C02", "replica_divergence", "", "%s", w.Divergence)
			break
		}
		for _, a := range e.Actors {
			a.OnBlock(e, blk)
		}
		for _, m := range e.Monitors {
			st.Cur = m.Prop()
			m.OnBlock(e, blk)
			st.Cur = ""
			if e.Viol != nil {
				break
			}
		}
		if e.Viol != nil {
			break
		}
		pumpGuidance(e, blk)
	}
	importedStateChecks(e)
	if e.Viol == nil {
		for _, m := range e.Monitors {
			if m.Prop() == e.Prop {
				m.Finish(e)
			}
		}
	}
	res.Violation = e.Viol
	for _, m := range e.Monitors {
		if m.Prop() == e.Prop {
			st.Cur = m.Prop()
			res.NonTrivial = m.NonTrivial(e)
		}
	}
	return res
}

func firstLine(s string) string {
	if i := strings.IndexByte(s, '\n'); i >= 0 {
		return s[:i]
	}
	return s
}

// selectionDiff compares the committee-selection events (signing assignments, oracle request validators) of two executions of
// one block and describes the first difference.
func selectionDiff(a, b *abci.ResponseFinalizeBlock) string {
	pick := func(r *abci.ResponseFinalizeBlock) []string {
		var out []string
		add := func(evs []abci.Event) {
			for _, ev := range evs {
				if ev.Type != "request_signature" && ev.Type != "request" && ev.Type != "create_signing_request" {
					continue
				}
				s := ev.Type
				for _, at := range ev.Attributes {
					if at.Key == "mode" || at.Key == "msg_index" {
						continue
					}
					s += " " + at.Key + "=" + at.Value
				}
				out = append(out, s)
			}
		}
		for _, tr := range r.TxResults {
			add(tr.Events)
		}
		add(r.Events)
		return out
	}
	x, y := pick(a), pick(b)
	for i := range x {
		if i >= len(y) {
			return fmt.Sprintf("selection event %d missing on the second replica: %s", i, x[i])
		}
		if x[i] != y[i] {
			return fmt.Sprintf("selection event %d differs: {%s} vs {%s}", i, x[i], y[i])
		}
	}
	if len(y) > len(x) {
		return fmt.Sprintf("extra selection event on the second replica: %s", y[len(x)])
	}
	return ""
}

// pumpGuidance advances every shared reference model that no monitor of this profile advanced for this block (Advance is
// idempotent per height). Actors read these models to aim their inputs; a model nobody advances leaves them blind.
func pumpGuidance(e *Env, blk *world.BlockRecord) {
	if e.guidanceLost {
		return
	}
	defer func() {
		if r := recover(); r != nil {
			e.guidanceLost = true
			e.St.Probe("actor_guidance_models_dropped")
		}
	}()
	if x, ok := e.Shared["stake.shadow"].(*StakeShadow); ok {
		x.Advance(e, blk)
	}
	if x, ok := e.Shared["feeds.shadow"].(*FeedsShadow); ok {
		x.Advance(e, blk)
	}
	if x, ok := e.Shared["tss.shadow"].(*TSSShadow); ok {
		x.Advance(e, blk)
	}
	if x, ok := e.Shared["tunnel.shadow"].(*TunnelShadow); ok {
		x.Advance(e, blk)
	}
}

// anchoredIn returns the first anchor file of prop that appears in the panic stack ("" if none).
func anchoredIn(prop, stack string) string {
	for _, ln := range strings.Split(stack, "\n") {
		ln = strings.TrimSpace(ln)
		if !strings.Contains(ln, ".go:") {
			continue
		}
		for _, a := range Anchors[prop] {
			if strings.Contains(ln, "/"+a+":") {
				return a
			}
		}
	}
	return ""
}

// haltSite extracts the innermost repository frame of a halt for attribution.
func haltSite(h *world.Halt) string {
	for _, ln := range strings.Split(h.Stack, "\n") {
		ln = strings.TrimSpace(ln)
		if strings.HasPrefix(ln, "github.com/bandprotocol/chain/v3/") && !strings.Contains(ln, "/app.") {
			f := strings.TrimPrefix(ln, "github.com/bandprotocol/chain/v3/")
			if i := strings.IndexByte(f, '('); i > 0 && !strings.HasPrefix(f[i:], "(*") && !strings.HasPrefix(f[i:], "(K") {
				f = f[:i]
			}
			if i := strings.LastIndex(f, "("); i > 0 && strings.HasSuffix(f, ")") {
				f = f[:i]
			}
			return f
		}
	}
	// numbers (amounts, ids, heights) are replaced so that the key names the failure class, not one instance
	var b strings.Builder
	prevDigit := false
	for _, r := range firstLine(h.Err) {
		if r >= '0' && r <= '9' {
			if !prevDigit {
				b.WriteByte('N')
			}
			prevDigit = true
			continue
		}
		prevDigit = false
		b.WriteRune(r)
	}
	e := b.String()
	if len(e) > 90 {
		e = e[:90]
	}
	return "err:" + e
}

// ---------------------------------------------------------------------------------------------
// Event helpers

type Ev struct {
	Type  string
	Attrs map[string][]string
	Mode  string // BeginBlock / EndBlock / "" for tx events
}

func (e Ev) Get(k string) string {
	if v := e.Attrs[k]; len(v) > 0 {
		return v[0]
	}
	return ""
}
func (e Ev) U64(k string) uint64 {
	v, _ := strconv.ParseUint(e.Get(k), 10, 64)
	return v
}

func ParseEvents(evs []abci.Event) []Ev {
	out := make([]Ev, 0, len(evs))
	for _, ev := range evs {
		x := Ev{Type: ev.Type, Attrs: map[string][]string{}}
		for _, a := range ev.Attributes {
			if a.Key == "mode" {
				x.Mode = a.Value
				continue
			}
			x.Attrs[a.Key] = append(x.Attrs[a.Key], a.Value)
		}
		out = append(out, x)
	}
	return out
}

func EventsOfType(evs []Ev, typ string) []Ev {
	var out []Ev
	for _, e := range evs {
		if e.Type == typ {
			out = append(out, e)
		}
	}
	return out
}

func sortedStrings(m map[string]bool) []string {
	out := make([]string, 0, len(m))
	for k := range m {
		out = append(out, k)
	}
	sort.Strings(out)
	return out
}

var baseTime = time.Unix(1_750_000_000, 0).UTC()
