package chainsim

import (
	"verifsim/ref"
	"math/big"
	"fmt"
	"sort"
	"time"

	cmtdb "github.com/cometbft/cometbft-db"

	"cosmossdk.io/math"

	sdk "github.com/cosmos/cosmos-sdk/types"
	banktypes "github.com/cosmos/cosmos-sdk/x/bank/types"

	band "github.com/bandprotocol/chain/v3/app"
	cylstore "github.com/bandprotocol/chain/v3/cylinder/store"
	cylde "github.com/bandprotocol/chain/v3/cylinder/workers/de"
	"github.com/bandprotocol/chain/v3/pkg/tss"
	bandtsstypes "github.com/bandprotocol/chain/v3/x/bandtss/types"
	feedstypes "github.com/bandprotocol/chain/v3/x/feeds/types"
	oracletypes "github.com/bandprotocol/chain/v3/x/oracle/types"
	tunneltypes "github.com/bandprotocol/chain/v3/x/tunnel/types"
	tsstypes "github.com/bandprotocol/chain/v3/x/tss/types"

	"verifsim/world"
)

// ---------------------------------------------------------------------------------------------
// Member pool

type TSSMember struct {
	Acc   *world.Account
	Store *cylstore.Store
	Idx   int
	// behaviour drawn per run
	DETarget  int
	DELazyP   int   // permille per step to top up when below target
	SignW     []int // weights over: +1, +2, +3, period-1, period, never
	Silent    bool
	ResetP    int
	pendingDE int
	plans     map[string]int64 // "sid/attempt" -> height to submit at (-1 never)
	done      map[string]bool
}

type TSSPool struct {
	Members []*TSSMember
	ByAddr  map[string]*TSSMember
}

func NewTSSPool(e *Env, accs []*world.Account) *TSSPool {
	p := &TSSPool{ByAddr: map[string]*TSSMember{}}
	for i, a := range accs {
		m := &TSSMember{Acc: a, Idx: i, Store: cylstore.NewStore(cmtdb.NewMemDB()), plans: map[string]int64{}, done: map[string]bool{}}
		p.Members = append(p.Members, m)
		p.ByAddr[a.Addr.String()] = m
	}
	return p
}

// offlineDKG runs an honest DKG in memory with the real pkg/tss functions and stores each member's
// key share in its cylinder store. Used to install a group at genesis.
// With grind, member 1's polynomial is re-drawn until the group public key's X coordinate starts with a zero byte (a 1-in-256
// event otherwise): every fixed-width encoding of the key is then exercised at its boundary.
func offlineDKG(members []*TSSMember, threshold uint64, gid tss.GroupID, dkgCtx []byte, grind bool) (tsstypes.Group, []tsstypes.Member, error) {
	n := len(members)
	infos := make([]*tss.Round1Info, n)
	for i := range members {
		r1, err := tss.GenerateRound1Info(tss.MemberID(i+1), threshold, dkgCtx)
		if err != nil {
			return tsstypes.Group{}, nil, err
		}
		infos[i] = r1
	}
	var groupPub tss.Point
	for try := 0; ; try++ {
		var a0s tss.Points
		for _, r1 := range infos {
			a0s = append(a0s, r1.CoefficientCommits[0])
		}
		gp, err := tss.ComputeGroupPublicKey(a0s...)
		if err != nil {
			return tsstypes.Group{}, nil, err
		}
		groupPub = gp
		if !grind || gp[1] == 0 || try > 4000 {
			break
		}
		r1, err := tss.GenerateRound1Info(1, threshold, dkgCtx)
		if err != nil {
			return tsstypes.Group{}, nil, err
		}
		infos[0] = r1
	}
	var out []tsstypes.Member
	for i, m := range members {
		var shares tss.Scalars
		for _, r1 := range infos {
			s, err := tss.ComputeSecretShare(r1.Coefficients, tss.MemberID(i+1))
			if err != nil {
				return tsstypes.Group{}, nil, err
			}
			shares = append(shares, s)
		}
		priv, err := tss.ComputeOwnPrivateKey(shares...)
		if err != nil {
			return tsstypes.Group{}, nil, err
		}
		if err := m.Store.SetGroup(cylstore.Group{GroupPubKey: groupPub, MemberID: tss.MemberID(i + 1), PrivKey: priv}); err != nil {
			return tsstypes.Group{}, nil, err
		}
		out = append(out, tsstypes.Member{ID: tss.MemberID(i + 1), GroupID: gid, Address: m.Acc.Addr.String(), PubKey: priv.Point(), IsActive: true})
	}
	g := tsstypes.NewGroup(gid, uint64(n), threshold, groupPub, tsstypes.GROUP_STATUS_ACTIVE, 0, bandtsstypes.ModuleName)
	return g, out, nil
}

type tssGenesisCfg struct {
	TSSParams     tsstypes.Params
	BandtssParams bandtsstypes.Params
	GroupMembers  []*TSSMember // nil: no genesis group
	Threshold     uint64
	InitialDEs    int
	GrindKey      bool // group key with a leading zero byte in X
}

func tssGenesis(e *Env, cfg tssGenesisCfg) func(w *world.World, gs band.GenesisState) {
	return func(w *world.World, gs band.GenesisState) {
		cdc := w.Replicas[0].App.AppCodec()
		tg := tsstypes.DefaultGenesisState()
		tg.Params = cfg.TSSParams
		bg := bandtsstypes.DefaultGenesisState()
		bg.Params = cfg.BandtssParams
		if len(cfg.GroupMembers) > 0 {
			g, ms, err := offlineDKG(cfg.GroupMembers, cfg.Threshold, 1, []byte("genesis-dkg"), cfg.GrindKey)
			if err != nil {
				panic(err)
			}
			if g.PubKey[1] == 0 {
				e.St.Probe("tss_group_key_with_leading_zero_byte")
			}
			tg.Groups = []tsstypes.Group{g}
			tg.Members = ms
			for _, m := range cfg.GroupMembers {
				n := cfg.InitialDEs
				if n > m.DETarget {
					n = m.DETarget
				}
				des := m.genDEs(uint64(n))
				for _, d := range des {
					tg.DEs = append(tg.DEs, tsstypes.DEGenesis{Address: m.Acc.Addr.String(), DE: d})
				}
				bg.Members = append(bg.Members, bandtsstypes.NewMember(m.Acc.Addr, 1, true, w.Cfg.GenesisTime))
			}
			bg.CurrentGroup = bandtsstypes.NewCurrentGroup(1, w.Cfg.GenesisTime)
			e.Shared["tss.genesis.des"] = tg.DEs
			gm := cfg.GroupMembers
			e.Shared["tss.genesis.flags"] = func(sh *TSSShadow) {
				sh.TSSActive[1] = map[string]bool{}
				for _, m := range gm {
					sh.TSSActive[1][m.Acc.Addr.String()] = true
					sh.BandMembers[fmt.Sprintf("%s/%d", m.Acc.Addr.String(), 1)] = true
				}
			}
		}
		gs[tsstypes.ModuleName] = cdc.MustMarshalJSON(tg)
		gs[bandtsstypes.ModuleName] = cdc.MustMarshalJSON(bg)
	}
}

// genDEs creates fresh nonce pairs with the real cylinder generator and keeps the private halves.
func (m *TSSMember) genDEs(n uint64) []tsstypes.DE {
	secret := tss.Scalar(m.Acc.Priv.Bytes())
	privs, err := cylde.GenerateDEs(n, secret, m.Store)
	if err != nil {
		panic(err)
	}
	var out []tsstypes.DE
	for _, p := range privs {
		if err := m.Store.SetDE(p); err != nil {
			panic(err)
		}
		out = append(out, p.PubDE)
	}
	return out
}

// ---------------------------------------------------------------------------------------------
// Intent metadata read by the monitors

type deMeta struct {
	Member *TSSMember
	DEs    []tsstypes.DE
}
type resetMeta struct{ Member *TSSMember }
type sigMeta struct {
	Msg     *tsstypes.MsgSubmitSignature
	Kind    string // "honest" or the corruption kind
	Attempt uint64 // attempt the signature was computed for
}
type reqSigMeta struct {
	Msg     *bandtsstypes.MsgRequestSignature
	Kind    string
	Text    []byte
	Sender  *world.Account
	// content description for C11
	Content   string // text, feeds, oracle, internal_tunnel, internal_transition
	SignalIDs []string
	Encoder   int32
	RequestID uint64
}
type activateMeta struct {
	Member  *TSSMember
	GroupID tss.GroupID
}

// ---------------------------------------------------------------------------------------------

type TSSActor struct {
	HoldStaleP int // permille of late signing plans turned into "withhold until another transition awaits its signature"
	Pool      *TSSPool
	firstOpen uint64
	ByzP      int // permille per step of a Byzantine signature attempt
	ReactP    int // permille per step per inactive member to send MsgActivate
	OverDEP   int // permille: submit more DEs than the maximum allows
}

func (a *TSSActor) OnBlock(e *Env, blk *world.BlockRecord) {
	for _, tx := range blk.Txs {
		if dm, ok := tx.Intent.Meta.(*deMeta); ok && !tx.IsDup {
			dm.Member.pendingDE -= len(dm.DEs)
			if dm.Member.pendingDE < 0 {
				dm.Member.pendingDE = 0
			}
		}
	}
}

func (a *TSSActor) Act(e *Env) {
	ctx := e.Ctx()
	tk := e.App().TSSKeeper
	bk := e.App().BandtssKeeper
	params := tk.GetParams(ctx)
	h := e.W.Height + 1 // height of the block being built

	// 1. nonce management
	for _, m := range a.Pool.Members {
		q := tk.GetDEQueue(ctx, m.Acc.Addr)
		have := int(q.Tail-q.Head) + m.pendingDE
		if have < m.DETarget && (e.Draining || e.Ch.Bool("tss.de.topup", m.DELazyP)) {
			n := m.DETarget - have
			if !e.Draining && a.OverDEP > 0 && e.Ch.Bool("tss.de.over", a.OverDEP) {
				n = int(params.MaxDESize) - have + 1 + e.Ch.Intn("tss.de.overn", 3)
				e.St.Fault("de_over_limit")
			}
			if n > 40 || n < -1<<30 {
				n = 40 // parameters set to edge values by governance must not make the actor generate billions of nonces
			}
			if n > 0 {
				des := m.genDEs(uint64(n))
				m.pendingDE += len(des)
				e.Submit(m.Acc, "submit_des", &deMeta{Member: m, DEs: des}, tsstypes.NewMsgSubmitDEs(des, m.Acc.Addr.String()))
			}
		}
		if !e.Draining && m.ResetP > 0 && e.Ch.Bool("tss.de.reset", m.ResetP) {
			e.Submit(m.Acc, "reset_de", &resetMeta{Member: m}, tsstypes.NewMsgResetDE(m.Acc.Addr.String()))
			e.St.Fault("de_reset")
		}
	}

	// 2. signatures
	count := tk.GetSigningCount(ctx)
	if a.firstOpen == 0 {
		a.firstOpen = 1
	}
	type openSig struct {
		s  tsstypes.Signing
		sa tsstypes.SigningAttempt
	}
	var open []openSig
	allClosedSoFar := true
	for sid := a.firstOpen; sid <= count; sid++ {
		s, err := tk.GetSigning(ctx, tss.SigningID(sid))
		if err != nil {
			continue
		}
		if s.Status != tsstypes.SIGNING_STATUS_WAITING {
			if allClosedSoFar {
				a.firstOpen = sid + 1
			}
			continue
		}
		allClosedSoFar = false
		sa, err := tk.GetSigningAttempt(ctx, s.ID, s.CurrentAttempt)
		if err != nil {
			continue
		}
		open = append(open, openSig{s, sa})
	}
	for _, o := range open {
		for _, am := range o.sa.AssignedMembers {
			m := a.Pool.ByAddr[am.Address]
			if m == nil {
				continue
			}
			key := fmt.Sprintf("%d/%d", o.s.ID, o.sa.Attempt)
			if m.done[key] {
				continue
			}
			plan, ok := m.plans[key]
			if !ok {
				created := int64(o.sa.ExpiredHeight) - int64(params.SigningPeriod)
				if m.Silent {
					plan = -1
				} else {
					switch e.Ch.Weighted("tss.sign.plan", m.SignW) {
					case 0:
						plan = created + 1
					case 1:
						plan = created + 2
					case 2:
						plan = created + 3
					case 3:
						plan = int64(o.sa.ExpiredHeight) - 1
					case 4:
						plan = int64(o.sa.ExpiredHeight)
					case 5:
						plan = -1
						e.St.Fault("member_silent_on_attempt")
					}
				}
				if plan >= int64(o.sa.ExpiredHeight)-1 && a.HoldStaleP > 0 && e.Ch.Bool("tss.sign.holdstale", a.HoldStaleP) {
					plan = -2 // withhold until a group transition waits for a different signing, at the latest until expiry
				}
				if e.Draining && plan < 0 && !m.Silent {
					plan = h
				}
				m.plans[key] = plan
			}
			if plan == -2 {
				if tr, ok := bk.GetGroupTransition(ctx); (ok && tr.Status == bandtsstypes.TRANSITION_STATUS_WAITING_SIGN && tr.SigningID != o.s.ID) || h >= int64(o.sa.ExpiredHeight)-1 {
					if ok && tr.SigningID != o.s.ID && tr.Status == bandtsstypes.TRANSITION_STATUS_WAITING_SIGN {
						e.St.Fault("withheld_signature_released_while_a_transition_awaits_another_signing")
					}
					plan = h
					m.plans[key] = h
				}
			}
			if e.Draining && !m.Silent && plan < 0 {
				plan = h
			}
			if plan < 0 || h < plan {
				continue
			}
			sig, err := m.signHonest(o.s, o.sa, am)
			if err != nil {
				e.St.Probe("member_cannot_sign:" + err.Error())
				m.done[key] = true
				if err.Error() != "no_group_key" && err.Error() != "no_private_de" {
					// the member holds its key share and the private nonce pair the chain assigned, yet the signing library cannot
					// produce a share for the committee as the chain recorded it: nobody can ever complete this attempt
					list, _ := e.Shared["c03.unsignable"].([]string)
					e.Shared["c03.unsignable"] = append(list, fmt.Sprintf("signing %d attempt %d, member %d of committee %v: %v", o.s.ID, o.sa.Attempt, am.MemberID, sortedMemberIDsRaw(o.sa.AssignedMembers), err))
				}
				continue
			}
			m.done[key] = true
			msg := tsstypes.NewMsgSubmitSignature(o.s.ID, am.MemberID, sig, m.Acc.Addr.String())
			e.Submit(m.Acc, "submit_signature", &sigMeta{Msg: msg, Kind: "honest", Attempt: o.sa.Attempt}, msg)
		}
	}
	// 3. Byzantine signature attempts
	if !e.Draining && a.ByzP > 0 && len(open) > 0 && e.Ch.Bool("tss.byz", a.ByzP) {
		o := open[e.Ch.Intn("tss.byz.which", len(open))]
		a.byzSignature(e, o.s, o.sa)
	}
	// 4. re-activation in bandtss
	cur := bk.GetCurrentGroup(ctx).GroupID
	if cur != 0 {
		for _, bm := range bk.GetMembers(ctx) {
			if bm.IsActive {
				continue
			}
			m := a.Pool.ByAddr[bm.Address]
			if m == nil || m.Silent {
				continue
			}
			if e.Draining || e.Ch.Bool("tss.reactivate", a.ReactP) {
				e.Submit(m.Acc, "bandtss_activate", &activateMeta{Member: m, GroupID: bm.GroupID}, bandtsstypes.NewMsgActivate(m.Acc.Addr.String(), bm.GroupID))
			}
		}
	}
}

func (m *TSSMember) signHonest(s tsstypes.Signing, sa tsstypes.SigningAttempt, am tsstypes.AssignedMember) (tss.Signature, error) {
	g, err := m.Store.GetGroup(s.GroupPubKey)
	if err != nil {
		return nil, fmt.Errorf("no_group_key")
	}
	privDE, err := m.Store.GetDE(tsstypes.DE{PubD: am.PubD, PubE: am.PubE})
	if err != nil {
		return nil, fmt.Errorf("no_private_de")
	}
	privNonce, err := tss.ComputeOwnPrivNonce(privDE.PrivD, privDE.PrivE, am.BindingFactor)
	if err != nil {
		return nil, err
	}
	var mids []tss.MemberID
	for _, x := range sa.AssignedMembers {
		mids = append(mids, x.MemberID)
	}
	lag, err := tss.ComputeLagrangeCoefficient(g.MemberID, mids)
	if err != nil {
		return nil, err
	}
	return tss.SignSigning(s.GroupPubNonce, s.GroupPubKey, s.Message, lag, privNonce, g.PrivKey)
}

// byzSignature submits a partial signature that is wrong in exactly one component.
func (a *TSSActor) byzSignature(e *Env, s tsstypes.Signing, sa tsstypes.SigningAttempt) {
	ams := sa.AssignedMembers
	am := ams[e.Ch.Intn("tss.byz.member", len(ams))]
	m := a.Pool.ByAddr[am.Address]
	if m == nil {
		return
	}
	sig, err := m.signHonest(s, sa, am)
	if err != nil {
		return
	}
	kind := e.Ch.Intn("tss.byz.kind", 11)
	signer := m.Acc
	mid := am.MemberID
	label := ""
	switch kind {
	case 0: // s + 1
		label = "byz_sig_s_plus_1"
		sb := append([]byte{}, sig...)
		for i := len(sb) - 1; i >= 33; i-- {
			sb[i]++
			if sb[i] != 0 {
				break
			}
		}
		sig = sb
	case 1: // R replaced by another point (other member's nonce or own D)
		label = "byz_sig_wrong_R"
		other := am.PubD
		if len(ams) > 1 {
			for _, x := range ams {
				if x.MemberID != am.MemberID {
					other = x.PubNonce
					break
				}
			}
		}
		sig = append(append([]byte{}, other...), sig[33:]...)
	case 2: // correct signature sent by another pool member's address
		label = "byz_sig_wrong_signer"
		o := a.Pool.Members[e.Ch.Intn("tss.byz.other", len(a.Pool.Members))]
		if o == m {
			return
		}
		signer = o.Acc
	case 3: // wrong member id
		label = "byz_sig_wrong_member_id"
		mid = am.MemberID%tss.MemberID(len(ams)+3) + 1
		if mid == am.MemberID {
			mid++
		}
	case 4: // signature over another message
		label = "byz_sig_other_message"
		s2 := s
		s2.Message = append(append([]byte{}, s.Message...), 0x01)
		var err error
		sig, err = m.signHonest(s2, sa, am)
		if err != nil {
			return
		}
	case 5: // random scalar
		label = "byz_sig_random_s"
		sig = append(append([]byte{}, sig[:33]...), e.Ch.Bytes("tss.byz.rand", 32)...)
		sig[33] &= 0x7f
	case 7: // valid Schnorr share under the member's key but with a nonce other than the assigned one
		label = "byz_sig_fresh_nonce"
		g, err1 := m.Store.GetGroup(s.GroupPubKey)
		privDE, err2 := m.Store.GetDE(tsstypes.DE{PubD: am.PubD, PubE: am.PubE})
		if err1 != nil || err2 != nil {
			return
		}
		var mids []tss.MemberID
		for _, x := range ams {
			mids = append(mids, x.MemberID)
		}
		lag, err := tss.ComputeLagrangeCoefficient(g.MemberID, mids)
		if err != nil {
			return
		}
		sig, err = tss.SignSigning(s.GroupPubNonce, s.GroupPubKey, s.Message, lag, privDE.PrivD, g.PrivKey)
		if err != nil {
			return
		}
	case 9: // the correct share followed by extra bytes
		label = "byz_sig_trailing_bytes"
		sig = append(append([]byte{}, sig...), e.Ch.Bytes("tss.byz.trail", 1+e.Ch.Intn("tss.byz.trailn", 3))...)
	case 10: // the correct share, delivered now and the same bytes once more (re-broadcast): the second one must be refused
		label = "byz_sig_redelivered"
		msg1 := tsstypes.NewMsgSubmitSignature(s.ID, mid, sig, signer.Addr.String())
		e.Submit(signer, "submit_signature", &sigMeta{Msg: msg1, Kind: "honest", Attempt: sa.Attempt}, msg1)
		key := fmt.Sprintf("%d/%d", s.ID, sa.Attempt)
		m.done[key] = true
	case 8: // the assigned R_i is kept but the share is made with the negated nonce: only the x-coordinate of R_i matches
		label = "byz_sig_negated_nonce"
		g, err1 := m.Store.GetGroup(s.GroupPubKey)
		privDE, err2 := m.Store.GetDE(tsstypes.DE{PubD: am.PubD, PubE: am.PubE})
		if err1 != nil || err2 != nil {
			return
		}
		k, err := tss.ComputeOwnPrivNonce(privDE.PrivD, privDE.PrivE, am.BindingFactor)
		if err != nil {
			return
		}
		neg := new(big.Int).Sub(ref.N, new(big.Int).SetBytes(k))
		nk := make([]byte, 32)
		neg.FillBytes(nk)
		var mids []tss.MemberID
		for _, x := range ams {
			mids = append(mids, x.MemberID)
		}
		lag, err := tss.ComputeLagrangeCoefficient(g.MemberID, mids)
		if err != nil {
			return
		}
		sg, err := tss.SignSigning(s.GroupPubNonce, s.GroupPubKey, s.Message, lag, tss.Scalar(nk), g.PrivKey)
		if err != nil {
			return
		}
		sig = append(append([]byte{}, am.PubNonce...), sg[33:]...)
	case 6: // lagrange of a different committee (drop one member / pretend other attempt)
		label = "byz_sig_wrong_committee"
		if len(ams) < 2 {
			return
		}
		sa2 := sa
		sa2.AssignedMembers = nil
		for _, x := range ams {
			if x.MemberID == am.MemberID || len(sa2.AssignedMembers) < len(ams)-2 {
				sa2.AssignedMembers = append(sa2.AssignedMembers, x)
			}
		}
		if len(sa2.AssignedMembers) == len(ams) {
			return
		}
		var err error
		sig, err = m.signHonest(s, sa2, am)
		if err != nil {
			return
		}
	}
	e.St.Fault(label)
	msg := tsstypes.NewMsgSubmitSignature(s.ID, mid, sig, signer.Addr.String())
	e.Submit(signer, "submit_signature", &sigMeta{Msg: msg, Kind: label, Attempt: sa.Attempt}, msg)
}

// ---------------------------------------------------------------------------------------------
// Signature requester

type SigRequester struct {
	Rate     int
	MaxOpen  int
	Senders  []*world.Account
	LimitW   []int // fee limit choice weights: ample, exact, exact-1, other denom only
	RichContent bool
	Signals     []string
	lastContent tsstypes.Content
	lastMeta    *reqSigMeta
	RollbackP int
	n        int
}

func (r *SigRequester) OnBlock(e *Env, blk *world.BlockRecord) {}

func (r *SigRequester) Act(e *Env) {
	if e.Draining || !e.Ch.Bool("sigreq", r.Rate) {
		return
	}
	// sometimes a burst: requests created in one block share their expiry height, so their time-outs and retries meet in one end block
	n := 1
	if e.Ch.Bool("sigreq.burst", 150) {
		n = 2 + e.Ch.Intn("sigreq.burst.n", 3)
		e.St.Probe("signature_requests_in_a_burst")
	}
	for i := 0; i < n; i++ {
		r.once(e, i)
	}
}

func (r *SigRequester) once(e *Env, burstIdx int) {
	ctx := e.Ctx()
	bk := e.App().BandtssKeeper
	tk := e.App().TSSKeeper
	// bound the number of signings in flight
	open := 0
	count := tk.GetSigningCount(ctx)
	for sid := count; sid >= 1 && sid+40 > count; sid-- {
		if s, err := tk.GetSigning(ctx, tss.SigningID(sid)); err == nil && s.Status == tsstypes.SIGNING_STATUS_WAITING {
			open++
		}
	}
	if open+burstIdx >= r.MaxOpen+2*min(burstIdx, 1) {
		return
	}
	r.n++
	sender := r.Senders[e.Ch.Intn("sigreq.sender", len(r.Senders))]
	text := []byte(fmt.Sprintf("msg-%d-%x", r.n, e.Ch.Bytes("sigreq.text", 1+e.Ch.Intn("sigreq.len", 24))))
	fee, _ := bk.GetSigningFee(ctx)
	var limit sdk.Coins
	kind := "ample"
	switch e.Ch.Weighted("sigreq.limit", r.LimitW) {
	case 0:
		limit = fee.MulInt(math.NewInt(3)).Add(sdk.NewInt64Coin("uband", 1000))
	case 1:
		kind = "exact"
		limit = fee
	case 2:
		kind = "one_below"
		if len(fee) > 0 {
			i := e.Ch.Intn("sigreq.limit.denom", len(fee))
			limit = fee.Sub(sdk.NewCoin(fee[i].Denom, math.NewInt(1)))
		}
	case 3:
		kind = "other_denom"
		limit = sdk.NewCoins(sdk.NewInt64Coin("uatom", 1_000_000))
	}
	if limit.Empty() {
		limit = sdk.NewCoins(sdk.NewInt64Coin("uband", 1))
		if kind == "one_below" && !fee.Empty() {
			limit = sdk.NewCoins(sdk.NewInt64Coin("uatom", 1))
		}
	}
	var content tsstypes.Content = tsstypes.NewTextSignatureOrder(text)
	meta := &reqSigMeta{Kind: kind, Text: text, Sender: sender, Content: "text"}
	if r.RichContent {
		switch e.Ch.Weighted("sigreq.content", []int{40, 25, 15, 10, 10}) {
		case 1:
			n := 1 + e.Ch.Intn("sigreq.feeds.n", 4)
			perm := e.Ch.Perm("sigreq.feeds.perm", len(r.Signals))
			var ids []string
			for i := 0; i < n && i < len(perm); i++ {
				ids = append(ids, r.Signals[perm[i]])
			}
			if e.Ch.Bool("sigreq.feeds.unknown", 150) {
				ids = append(ids, "NOT:A-FEED")
			}
			enc := feedstypes.Encoder(1 + e.Ch.Intn("sigreq.feeds.enc", 2))
			content = feedstypes.NewFeedSignatureOrder(ids, enc)
			meta.Content, meta.SignalIDs, meta.Encoder = "feeds", ids, int32(enc)
		case 2:
			rid := uint64(1 + e.Ch.Intn("sigreq.oracle.rid", 12))
			enc := oracletypes.Encoder(1 + e.Ch.Intn("sigreq.oracle.enc", 3))
			content = oracletypes.NewOracleResultSignatureOrder(oracletypes.RequestID(rid), enc)
			meta.Content, meta.RequestID, meta.Encoder = "oracle", rid, int32(enc)
		case 3:
			content = tunneltypes.NewTunnelSignatureOrder(uint64(1+e.Ch.Intn("sigreq.tunnel.seq", 5)), []feedstypes.Price{{Status: feedstypes.PRICE_STATUS_AVAILABLE, SignalID: "CS:BTC-USD", Price: 777, Timestamp: 1}}, 1, feedstypes.ENCODER_FIXED_POINT_ABI)
			meta.Content = "internal_tunnel"
			e.St.Fault("request_internal_content")
		case 4:
			content = bandtsstypes.NewGroupTransitionSignatureOrder(sender.Priv.PubKey().Bytes(), e.W.Time)
			meta.Content = "internal_transition"
			e.St.Fault("request_internal_content")
		}
	}
	if r.lastContent != nil && e.Ch.Bool("sigreq.repeat", 120) {
		// the very same content again (same or other requester): signed messages must still differ
		content, meta.Content, meta.Text, meta.SignalIDs, meta.Encoder, meta.RequestID = r.lastContent, r.lastMeta.Content, r.lastMeta.Text, r.lastMeta.SignalIDs, r.lastMeta.Encoder, r.lastMeta.RequestID
		e.St.Fault("request_identical_content")
	}
	r.lastContent, r.lastMeta = content, meta
	msg, err := bandtsstypes.NewMsgRequestSignature(content, limit, sender.Addr.String())
	if err != nil {
		panic(err)
	}
	meta.Msg = msg
	if e.Ch.Bool("sigreq.memo", 300) {
		msg.Memo = fmt.Sprintf("memo%d", e.Ch.Intn("sigreq.memo.n", 50))
	}
	if r.RollbackP > 0 && e.Ch.Bool("sigreq.rollback", r.RollbackP) {
		// the request is followed, in the same transaction, by a message that must fail: everything the first
		// message did (fee transfer, nonce dequeue, signing creation) has to be rolled back
		bad := banktypes.NewMsgSend(sender.Addr, r.Senders[0].Addr, sdk.NewCoins(sdk.NewInt64Coin("uband", 9_000_000_000_000_000)))
		e.St.Fault("tx_second_msg_fails")
		meta.Kind = "rollback"
		e.Submit(sender, "request_signature", meta, msg, bad)
		return
	}
	e.Submit(sender, "request_signature", meta, msg)
}

// ---------------------------------------------------------------------------------------------

func drawTSSParams(e *Env) tsstypes.Params {
	p := tsstypes.DefaultParams()
	p.SigningPeriod = uint64(e.Ch.Range("cfg.tss.period", 1, 8))
	p.MaxSigningAttempt = uint64(e.Ch.Range("cfg.tss.maxattempt", 1, 4))
	p.MaxDESize = uint64(e.Ch.Range("cfg.tss.maxde", 1, 10))
	p.CreationPeriod = uint64(e.Ch.Range("cfg.tss.creation", 6, 40))
	p.MaxGroupSize = 20
	return p
}

func drawBandtssParams(e *Env) bandtsstypes.Params {
	p := bandtsstypes.DefaultParams()
	p.RewardPercentage = 0
	p.InactivePenaltyDuration = time.Duration(e.Ch.Range("cfg.bandtss.penalty", 1, 30)) * time.Second
	p.MinTransitionDuration = time.Duration(e.Ch.Range("cfg.bandtss.mintrans", 1, 10)) * time.Second
	p.MaxTransitionDuration = p.MinTransitionDuration + time.Duration(e.Ch.Range("cfg.bandtss.maxtrans", 30, 600))*time.Second
	switch e.Ch.Intn("cfg.bandtss.fee", 4) {
	case 0:
		p.FeePerSigner = sdk.NewCoins(sdk.NewInt64Coin("uband", 10))
	case 1:
		p.FeePerSigner = sdk.NewCoins()
	case 2:
		p.FeePerSigner = sdk.NewCoins(sdk.NewInt64Coin("uband", 7), sdk.NewInt64Coin("uusd", 3))
	case 3:
		p.FeePerSigner = sdk.NewCoins(sdk.NewInt64Coin("uusd", 1))
	}
	return p
}

// drawMemberBehaviour sets per-member policies.
func drawMemberBehaviour(e *Env, pool *TSSPool, maxDE int, allowSilent bool) {
	for _, m := range pool.Members {
		m.DETarget = 1 + e.Ch.Intn("cfg.member.detarget", maxDE)
		m.DELazyP = []int{1000, 600, 250, 80}[e.Ch.Intn("cfg.member.delazy", 4)]
		m.SignW = [][]int{{70, 10, 5, 5, 5, 5}, {30, 20, 10, 15, 15, 10}, {10, 10, 10, 25, 25, 20}, {100, 0, 0, 0, 0, 0}}[e.Ch.Intn("cfg.member.signw", 4)]
		m.ResetP = []int{0, 0, 20, 60}[e.Ch.Intn("cfg.member.reset", 4)]
		if allowSilent && e.Ch.Bool("cfg.member.silent", 100) {
			m.Silent = true
		}
	}
}

// sortedMemberIDsRaw lists the assigned member ids in stored order (duplicates kept).
func sortedMemberIDsRaw(ams []tsstypes.AssignedMember) []uint64 {
	var o []uint64
	for _, a := range ams {
		o = append(o, uint64(a.MemberID))
	}
	return o
}

func sortedMemberIDs(ams []tsstypes.AssignedMember) []uint64 {
	var o []uint64
	for _, a := range ams {
		o = append(o, uint64(a.MemberID))
	}
	sort.Slice(o, func(i, j int) bool { return o[i] < o[j] })
	return o
}

// TSSParamChurn lets governance change the tss parameters mid-run (queue limit, signing period, attempts): limits that were
// satisfied when state was written may be exceeded by existing state afterwards.
type TSSParamChurn struct {
	Rate    int
	Edges   bool // also propose values at the 2^31 / 2^32 / 2^62 / 2^63 / 2^64 boundaries (proposed only if parameter validation accepts them)
	aimedAt map[uint64]bool
}

// edgeU64 draws one of the boundary values of unsigned 64-bit parameters.
func edgeU64(e *Env, label string) uint64 {
	return []uint64{1<<31 - 1, 1 << 32, 1 << 62, 1<<63 - 1, 1 << 63, 1<<64 - 1}[e.Ch.Weighted(label, []int{1, 1, 1, 2, 2, 4})]
}

func (p *TSSParamChurn) OnBlock(e *Env, blk *world.BlockRecord) {}
func (p *TSSParamChurn) Act(e *Env) {
	if e.Draining || e.Step < 4 {
		return
	}
	gov := getGov(e)
	if gov == nil {
		return
	}
	// event-triggered: a signing has reached its second or later attempt -> governance moves the attempt limit around it
	{
		tk := e.App().TSSKeeper
		cnt := tk.GetSigningCount(e.Ctx())
		for sid := cnt; sid > 0 && sid+20 > cnt; sid-- {
			sg, err := tk.GetSigning(e.Ctx(), tss.SigningID(sid))
			if err != nil || sg.Status != tsstypes.SIGNING_STATUS_WAITING || sg.CurrentAttempt < 2 || p.aimedAt[sid] {
				continue
			}
			if p.aimedAt == nil {
				p.aimedAt = map[uint64]bool{}
			}
			p.aimedAt[sid] = true
			if !e.Ch.Bool("tss.churn.trigger", 350) {
				continue
			}
			np := tk.GetParams(e.Ctx())
			np.MaxSigningAttempt = uint64(int(sg.CurrentAttempt) - 1 + e.Ch.Intn("tss.churn.trigger.off", 3))
			if np.Validate() == nil && np.MaxSigningAttempt != tk.GetParams(e.Ctx()).MaxSigningAttempt {
				gov.Propose(e, "params_tss", nil, &tsstypes.MsgUpdateParams{Authority: govAuthority, Params: np})
				e.St.Fault("tss_params_changed_by_governance")
				e.St.Probe("max_signing_attempt_aimed_at_a_signing_in_flight")
				return
			}
		}
	}
	if !e.Ch.Bool("tss.churn", p.Rate) {
		return
	}
	cur := e.App().TSSKeeper.GetParams(e.Ctx())
	np := cur
	what := e.Ch.Intn("tss.churn.what", 4)
	if what == 3 {
		// the signing fee changes while paid signings are in flight
		bp := e.App().BandtssKeeper.GetParams(e.Ctx())
		fees := []sdk.Coins{sdk.NewCoins(sdk.NewInt64Coin("uband", 10)), sdk.NewCoins(), sdk.NewCoins(sdk.NewInt64Coin("uband", 7), sdk.NewInt64Coin("uusd", 3)), sdk.NewCoins(sdk.NewInt64Coin("uusd", 1)), sdk.NewCoins(sdk.NewInt64Coin("uband", 25))}
		nf := fees[e.Ch.Intn("tss.churn.fee", len(fees))]
		if !nf.Equal(bp.FeePerSigner) {
			bp.FeePerSigner = nf
			if bp.Validate() == nil {
				gov.Propose(e, "params_bandtss", nil, &bandtsstypes.MsgUpdateParams{Authority: govAuthority, Params: bp})
				e.St.Fault("signing_fee_changed_by_governance")
			}
		}
		return
	}
	switch what {
	case 0:
		np.MaxDESize = uint64(e.Ch.Range("tss.churn.maxde", 1, 10))
	case 1:
		np.SigningPeriod = uint64(e.Ch.Range("tss.churn.period", 1, 8))
		if p.Edges && e.Ch.Bool("tss.churn.period.edge", 400) {
			np.SigningPeriod = edgeU64(e, "tss.churn.period.edgev")
			e.St.Fault("signing_period_set_to_an_edge_value")
		}
	case 2:
		np.MaxSigningAttempt = uint64(e.Ch.Range("tss.churn.attempt", 1, 4))
		if p.Edges && e.Ch.Bool("tss.churn.attempt.edge", 250) {
			np.MaxSigningAttempt = edgeU64(e, "tss.churn.attempt.edgev")
			e.St.Fault("max_signing_attempt_set_to_an_edge_value")
			break
		}
		// aimed: put the limit just below / at / just above the attempt number of a signing that is in flight
		tk := e.App().TSSKeeper
		cnt := tk.GetSigningCount(e.Ctx())
		var top uint64
		for sid := cnt; sid > 0 && sid+20 > cnt; sid-- {
			if sg, err := tk.GetSigning(e.Ctx(), tss.SigningID(sid)); err == nil && sg.Status == tsstypes.SIGNING_STATUS_WAITING && sg.CurrentAttempt > top {
				top = sg.CurrentAttempt
			}
		}
		if top >= 2 && e.Ch.Bool("tss.churn.attempt.aim", 700) {
			np.MaxSigningAttempt = uint64(int(top) - 1 + e.Ch.Intn("tss.churn.attempt.off", 3))
			e.St.Probe("max_signing_attempt_aimed_at_a_signing_in_flight")
		}
	}
	if np.Validate() == nil && np != cur {
		gov.Propose(e, "params_tss", nil, &tsstypes.MsgUpdateParams{Authority: govAuthority, Params: np})
		e.St.Fault("tss_params_changed_by_governance")
	}
}

// AssignFaults arms the fault point after the nonce dequeue (world.FailAssign): in the next block the n-th signing creation
// -- whichever source it comes from: a direct request, an oracle result, a tunnel packet, a retry or a hand-over -- fails
// after the selected members' nonces have been taken from their queues. Everything that creation did must be undone.
type AssignFaults struct{ Rate int }

func (p *AssignFaults) OnBlock(e *Env, blk *world.BlockRecord) {}
func (p *AssignFaults) Act(e *Env) {
	if e.Draining || e.Step < 3 || !e.Ch.Bool("tss.assignfault", p.Rate) {
		return
	}
	e.W.FailAssign[e.W.Height+1] = 1 + e.Ch.Intn("tss.assignfault.n", 3)
	if e.Ch.Bool("tss.assignfault.panic", 400) {
		e.W.FailAssignPanic[e.W.Height+1] = true
	}
	if src := []string{"", "", ".safeCreateSigning(", "keeper.Keeper.SendPacket(", ".HandleSigningEndBlock(", "baseapp.(*BaseApp).runTx("}[e.Ch.Intn("tss.assignfault.src", 6)]; src != "" {
		// a source-aimed fault stays armed for a stretch of blocks: the first creation from that source in each of them fails
		for h := e.W.Height + 1; h <= e.W.Height+8; h++ {
			e.W.FailAssignSrc[h] = src
			e.W.FailAssign[h] = 1
			if e.W.FailAssignPanic[e.W.Height+1] {
				e.W.FailAssignPanic[h] = true
			}
		}
	}
}
