package chainsim

import (
	"fmt"

	"cosmossdk.io/math"

	sdk "github.com/cosmos/cosmos-sdk/types"
	banktypes "github.com/cosmos/cosmos-sdk/x/bank/types"

	band "github.com/bandprotocol/chain/v3/app"
	feedstypes "github.com/bandprotocol/chain/v3/x/feeds/types"
	tunneltypes "github.com/bandprotocol/chain/v3/x/tunnel/types"

	"verifsim/world"
)

type tunnelMeta struct {
	Kind     string // create, deposit, withdraw, activate, deactivate, trigger, fund
	Actor    *world.Account
	TunnelID uint64
	Amount   sdk.Coins
	Create   *tunneltypes.MsgCreateTunnel
	IsTSS    bool
	Aim      string
}

func tunnelGenesis(p tunneltypes.Params) func(w *world.World, gs band.GenesisState) {
	return func(w *world.World, gs band.GenesisState) {
		cdc := w.Replicas[0].App.AppCodec()
		g := tunneltypes.DefaultGenesisState()
		g.Params = p
		gs[tunneltypes.ModuleName] = cdc.MustMarshalJSON(g)
	}
}

func drawTunnelParams(e *Env) tunneltypes.Params {
	p := tunneltypes.DefaultParams()
	switch e.Ch.Intn("cfg.tunnel.mindep", 3) {
	case 0:
		p.MinDeposit = sdk.NewCoins(sdk.NewInt64Coin("uband", 1000))
	case 1:
		p.MinDeposit = sdk.NewCoins(sdk.NewInt64Coin("uband", 500), sdk.NewInt64Coin("uusd", 200))
	case 2:
		p.MinDeposit = sdk.NewCoins(sdk.NewInt64Coin("uusd", 50))
	}
	p.MinInterval = uint64(e.Ch.Range("cfg.tunnel.minint", 1, 10))
	p.MaxInterval = p.MinInterval + uint64(e.Ch.Range("cfg.tunnel.maxint", 5, 60))
	p.MinDeviationBPS = uint64(e.Ch.Range("cfg.tunnel.mindev", 1, 100))
	p.MaxDeviationBPS = p.MinDeviationBPS + uint64(e.Ch.Range("cfg.tunnel.maxdev", 100, 9000))
	p.MaxSignals = uint64(e.Ch.Range("cfg.tunnel.maxsig", 1, 5))
	switch e.Ch.Intn("cfg.tunnel.basefee", 3) {
	case 0:
		p.BasePacketFee = sdk.NewCoins(sdk.NewInt64Coin("uband", 10))
	case 1:
		p.BasePacketFee = sdk.NewCoins()
	case 2:
		p.BasePacketFee = sdk.NewCoins(sdk.NewInt64Coin("uband", 3), sdk.NewInt64Coin("uusd", 2))
	}
	return p
}

// TunnelActor creates tunnels and operates on them (creators and strangers).
type TunnelActor struct {
	Users    []*world.Account
	Signals  []string
	Params   tunneltypes.Params
	Rate     int
	MaxTunnels int
	created  int
}

func (a *TunnelActor) OnBlock(e *Env, blk *world.BlockRecord) {}

func (a *TunnelActor) amountAround(e *Env, target sdk.Coins, label string) (sdk.Coins, string) {
	if target.Empty() {
		target = a.Params.MinDeposit
	}
	switch e.Ch.Weighted(label, []int{30, 25, 20, 15, 10}) {
	case 0:
		return target, "exact"
	case 1:
		c := target[e.Ch.Intn(label+".denom", len(target))]
		if c.Amount.GT(math.OneInt()) {
			return target.Sub(sdk.NewCoin(c.Denom, math.OneInt())), "one_below"
		}
		return target, "exact"
	case 2:
		return target.Add(sdk.NewInt64Coin(target[0].Denom, 1)), "one_above"
	case 3:
		out := sdk.NewCoins()
		for _, c := range target {
			out = out.Add(sdk.NewCoin(c.Denom, math.NewInt(1+int64(e.Ch.Intn(label+".part", int(c.Amount.Int64()))))))
		}
		return out, "part"
	}
	return sdk.NewCoins(sdk.NewInt64Coin("uatom", 5)), "wrong_denom"
}

func (a *TunnelActor) Act(e *Env) {
	if e.Draining || e.Step < 3 || !e.Ch.Bool("tunnel.op", a.Rate) {
		return
	}
	ctx := e.Ctx()
	tk := e.App().TunnelKeeper
	a.Params = tk.GetParams(ctx)
	count := tk.GetTunnelCount(ctx)
	u := a.Users[e.Ch.Intn("tunnel.user", len(a.Users))]
	kind := e.Ch.Weighted("tunnel.kind", []int{15, 20, 15, 15, 8, 10, 17})
	if count == 0 || (kind == 0 && a.created < a.MaxTunnels) {
		a.create(e, u)
		return
	}
	if kind == 0 {
		kind = 1
	}
	id := uint64(1 + e.Ch.Intn("tunnel.id", int(count)))
	if e.Ch.Bool("tunnel.badid", 20) {
		id = count + 3
	}
	t, err := tk.GetTunnel(ctx, id)
	// mostly the creator acts on its own tunnel
	if err == nil && e.Ch.Bool("tunnel.ascreator", 700) {
		for _, x := range a.Users {
			if x.Addr.String() == t.Creator {
				u = x
			}
		}
	}
	switch kind {
	case 1: // deposit
		amt, aim := a.amountAround(e, a.Params.MinDeposit, "tunnel.dep")
		msg := tunneltypes.NewMsgDepositToTunnel(id, amt, u.Addr.String())
		e.Submit(u, "tunnel_deposit", &tunnelMeta{Kind: "deposit", Actor: u, TunnelID: id, Amount: amt, Aim: aim}, msg)
	case 2: // withdraw
		target := a.Params.MinDeposit
		if d, found := tk.GetDeposit(ctx, id, u.Addr); found {
			target = d.Amount
			if err == nil && e.Ch.Bool("tunnel.wd.tomin", 400) {
				// leave the total exactly at / one below the minimum
				if slack, neg := t.TotalDeposit.SafeSub(a.Params.MinDeposit...); !neg && !slack.IsZero() && d.Amount.IsAllGTE(slack) {
					target = slack
				}
			}
		}
		amt, aim := a.amountAround(e, target, "tunnel.wd")
		if d, found := tk.GetDeposit(ctx, id, u.Addr); found && len(d.Amount) >= 2 && e.Ch.Bool("tunnel.wd.onedenom", 300) {
			// of a deposit in several denoms, one denom in full and nothing of the others
			c := d.Amount[e.Ch.Intn("tunnel.wd.onedenom.which", len(d.Amount))]
			amt, aim = sdk.NewCoins(c), "one_denom_in_full"
		}
		msg := tunneltypes.NewMsgWithdrawFromTunnel(id, amt, u.Addr.String())
		e.Submit(u, "tunnel_withdraw", &tunnelMeta{Kind: "withdraw", Actor: u, TunnelID: id, Amount: amt, Aim: aim}, msg)
	case 3:
		e.Submit(u, "tunnel_activate", &tunnelMeta{Kind: "activate", Actor: u, TunnelID: id}, tunneltypes.NewMsgActivate(id, u.Addr.String()))
	case 4:
		e.Submit(u, "tunnel_deactivate", &tunnelMeta{Kind: "deactivate", Actor: u, TunnelID: id}, tunneltypes.NewMsgDeactivate(id, u.Addr.String()))
	case 5:
		e.Submit(u, "tunnel_trigger", &tunnelMeta{Kind: "trigger", Actor: u, TunnelID: id}, tunneltypes.NewMsgTriggerTunnel(id, u.Addr.String()))
	case 6: // fund the fee payer
		if err != nil {
			return
		}
		fee := a.Params.BasePacketFee
		if rf, err2 := e.App().BandtssKeeper.GetSigningFee(ctx); err2 == nil {
			if r, err3 := t.GetRouteValue(); err3 == nil {
				if _, isTSS := r.(*tunneltypes.TSSRoute); isTSS {
					fee = fee.Add(rf...)
				}
			}
		}
		if fee.Empty() {
			fee = sdk.NewCoins(sdk.NewInt64Coin("uband", 5))
		}
		k := int64(1 + e.Ch.Intn("tunnel.fund.k", 4))
		amt := fee.MulInt(math.NewInt(k))
		if e.Ch.Bool("tunnel.fund.short", 250) {
			amt = amt.Sub(sdk.NewCoin(amt[0].Denom, math.OneInt()))
		}
		if amt.Empty() {
			return
		}
		msg := banktypes.NewMsgSend(u.Addr, sdk.MustAccAddressFromBech32(t.FeePayer), amt)
		e.Submit(u, "tunnel_fund", &bankMeta{Msg: msg}, msg)
	}
}

func (a *TunnelActor) create(e *Env, u *world.Account) {
	a.Params = e.App().TunnelKeeper.GetParams(e.Ctx())
	n := 1 + e.Ch.Intn("tunnel.create.nsig", int(a.Params.MaxSignals))
	if e.Ch.Bool("tunnel.create.toomany", 40) {
		n = int(a.Params.MaxSignals) + 1
	}
	perm := e.Ch.Perm("tunnel.create.sigs", len(a.Signals))
	var sds []tunneltypes.SignalDeviation
	for i := 0; i < n && i < len(perm); i++ {
		span := int(a.Params.MaxDeviationBPS - a.Params.MinDeviationBPS)
		soft := a.Params.MinDeviationBPS + uint64(e.Ch.Intn("tunnel.create.soft", span+1))
		hard := soft + uint64(e.Ch.Intn("tunnel.create.hard", int(a.Params.MaxDeviationBPS-soft)+1))
		if e.Ch.Bool("tunnel.create.baddev", 30) {
			hard = a.Params.MaxDeviationBPS + 1
		}
		sds = append(sds, tunneltypes.SignalDeviation{SignalID: a.Signals[perm[i]], SoftDeviationBPS: soft, HardDeviationBPS: hard})
	}
	interval := a.Params.MinInterval + uint64(e.Ch.Intn("tunnel.create.interval", int(a.Params.MaxInterval-a.Params.MinInterval)+1))
	if e.Ch.Bool("tunnel.create.badint", 30) {
		interval = a.Params.MaxInterval + 1
	}
	dep, aim := a.amountAround(e, a.Params.MinDeposit, "tunnel.create.dep")
	if e.Ch.Bool("tunnel.create.nodep", 200) {
		dep, aim = sdk.NewCoins(), "none"
	}
	var msg *tunneltypes.MsgCreateTunnel
	var err error
	isTSS := e.Ch.Bool("tunnel.create.tss", 880)
	if isTSS {
		enc := []feedstypes.Encoder{feedstypes.ENCODER_FIXED_POINT_ABI, feedstypes.ENCODER_TICK_ABI}[e.Ch.Intn("tunnel.create.enc", 2)]
		msg, err = tunneltypes.NewMsgCreateTSSTunnel(sds, interval, fmt.Sprintf("chain-%d", e.Ch.Intn("tunnel.create.chain", 3)), fmt.Sprintf("0xcontract%d", a.created), enc, dep, u.Addr.String())
	} else {
		msg, err = tunneltypes.NewMsgCreateIBCTunnel(sds, interval, dep, u.Addr.String())
	}
	if err != nil {
		panic(err)
	}
	a.created++
	e.Submit(u, "tunnel_create", &tunnelMeta{Kind: "create", Actor: u, Amount: dep, Create: msg, IsTSS: isTSS, Aim: aim}, msg)
}

// TunnelParamChurn lets governance change the minimum deposit (amounts and set of denoms) and the base packet fee mid-run.
type TunnelParamChurn struct {
	Rate int
}

func (p *TunnelParamChurn) OnBlock(e *Env, blk *world.BlockRecord) {}
func (p *TunnelParamChurn) Act(e *Env) {
	if e.Draining || e.Step < 6 || !e.Ch.Bool("tunnel.churn", p.Rate) {
		return
	}
	gov := getGov(e)
	if gov == nil {
		return
	}
	np := e.App().TunnelKeeper.GetParams(e.Ctx())
	switch e.Ch.Intn("tunnel.churn.what", 2) {
	case 0:
		np.MinDeposit = []sdk.Coins{sdk.NewCoins(sdk.NewInt64Coin("uband", 1000)), sdk.NewCoins(sdk.NewInt64Coin("uband", 500), sdk.NewInt64Coin("uusd", 200)),
			sdk.NewCoins(sdk.NewInt64Coin("uusd", 50)), sdk.NewCoins(sdk.NewInt64Coin("uband", 2000))}[e.Ch.Intn("tunnel.churn.mindep", 4)]
	case 1:
		np.BasePacketFee = []sdk.Coins{sdk.NewCoins(sdk.NewInt64Coin("uband", 10)), sdk.NewCoins(), sdk.NewCoins(sdk.NewInt64Coin("uband", 3), sdk.NewInt64Coin("uusd", 2)), sdk.NewCoins(sdk.NewInt64Coin("uband", 40))}[e.Ch.Intn("tunnel.churn.fee", 4)]
	}
	if np.Validate() == nil {
		gov.Propose(e, "params_tunnel", nil, &tunneltypes.MsgUpdateParams{Authority: govAuthority, Params: np})
		e.St.Fault("tunnel_params_changed_by_governance")
	}
}
