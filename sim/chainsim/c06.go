package chainsim

import (
	"bytes"
	"fmt"
	"math/big"
	"sort"

	"cosmossdk.io/math"

	sdk "github.com/cosmos/cosmos-sdk/types"
	stakingtypes "github.com/cosmos/cosmos-sdk/x/staking/types"

	feedstypes "github.com/bandprotocol/chain/v3/x/feeds/types"

	"verifsim/ref"
	"verifsim/world"
)

// C06 — feed price = quorum-gated weighted median of fresh validator prices.
type C06 struct {
	nAvailable3, nEval, nNotReady, nUnknown, nTieFallback int
}

func (m *C06) Prop() string { return "C06" }

type c06Val struct {
	Oper  string
	Power uint64
}

func (m *C06) OnBlock(e *Env, blk *world.BlockRecord) {
	fs := getFeedsShadow(e)
	fs.Advance(e, blk)
	ctx := e.Ctx()
	fk := e.App().FeedsKeeper
	sk := e.App().StakingKeeper
	params := fk.GetParams(ctx)
	now := blk.Time.Unix()
	// bonded validators and their tokens (staking end block does not change tokens)
	all, _ := sk.GetAllValidators(ctx)
	var vals []c06Val
	totalBonded := math.ZeroInt()
	for _, v := range all {
		if v.Status != stakingtypes.Bonded {
			continue
		}
		totalBonded = totalBonded.Add(v.Tokens)
		vals = append(vals, c06Val{Oper: v.OperatorAddress, Power: v.Tokens.Uint64()})
	}
	sort.Slice(vals, func(i, j int) bool { return vals[i].Oper < vals[j].Oper })
	quorum := math.LegacyMustNewDecFromStr(params.PriceQuorum)
	powerQuorum := math.LegacyNewDecFromInt(totalBonded).Mul(quorum).TruncateInt().BigInt()
	// validators deactivated during this end block: the oracle end blocker (expired requests) runs BEFORE the feeds end blocker,
	// so a validator it deactivates is not counted; the feeds end blocker fixes its validator list before it looks for missed
	// prices, so a validator it deactivates itself is still counted for every feed of this block. Which of the two happened
	// follows from the history (the rule of MissReport, as in C15): an expired request that asked the validator, lacks its report
	// and was made while it was already active.
	var maybe []string // kept for the report text only
	oracleDeact := map[string]bool{}
	seenD := map[string]bool{}
	for _, d := range fs.JDeact {
		if !fs.A0[d.Val] || seenD[d.Val] {
			continue
		}
		seenD[d.Val] = true
		since := fs.SincePre[d.Val]
		for _, a := range fs.JActivate {
			if a.Val == d.Val && a.Tx.OK() {
				since = a.Now
			}
		}
		for _, r := range fs.Expired {
			for _, c := range r.Chosen {
				if c == d.Val && !r.Reported[d.Val] && since.Before(r.Time) {
					oracleDeact[d.Val] = true
				}
			}
		}
		if oracleDeact[d.Val] {
			e.St.Probe("c06_validator_deactivated_by_oracle_expiry_in_this_block")
		} else {
			e.St.Probe("c06_validator_deactivated_by_feeds_in_this_block")
		}
	}
	cf := fs.CurFeeds
	stored := map[string]feedstypes.Price{}
	for _, p := range fk.GetAllPrices(ctx) {
		stored[p.SignalID] = p
	}
	if len(stored) != len(cf.Feeds) {
		e.Fail("C06", "price_set", "", "%d prices stored but %d current feeds at height %d", len(stored), len(cf.Feeds), blk.Height)
		return
	}
	for _, feed := range cf.Feeds {
		got, ok := stored[feed.SignalID]
		if !ok {
			e.Fail("C06", "price_missing", "", "current feed %s has no price at height %d", feed.SignalID, blk.Height)
			return
		}
		m.nEval++
		type outcome struct {
			status feedstypes.PriceStatus
			prices map[uint64]bool
			rangeOnly bool
			lo, hi uint64
			nFresh, nTs int
		}
		var outcomes []outcome
		for mask := 0; mask < 1<<len(maybe); mask++ {
			excl := map[string]bool{}
			for i, v := range maybe {
				if mask&(1<<i) != 0 {
					excl[v] = true
				}
			}
			total, avail, unsup := new(big.Int), new(big.Int), new(big.Int)
			var entries []ref.PriceEntry
			tsSet := map[int64]bool{}
			for _, v := range vals {
				if !fs.A0[v.Oper] || excl[v.Oper] || oracleDeact[v.Oper] {
					continue
				}
				p, has := fs.Prices[v.Oper][feed.SignalID]
				if !has || p.Status == feedstypes.SIGNAL_PRICE_STATUS_UNSPECIFIED || p.Ts < now-feed.Interval {
					continue
				}
				pw := new(big.Int).SetUint64(v.Power)
				total.Add(total, pw)
				switch p.Status {
				case feedstypes.SIGNAL_PRICE_STATUS_AVAILABLE:
					avail.Add(avail, pw)
					entries = append(entries, ref.PriceEntry{Price: p.Price, Power: pw, Time: p.Ts})
					tsSet[p.Ts] = true
				case feedstypes.SIGNAL_PRICE_STATUS_UNSUPPORTED:
					unsup.Add(unsup, pw)
				}
			}
			o := outcome{nFresh: len(entries), nTs: len(tsSet)}
			switch {
			case new(big.Int).Lsh(unsup, 1).Cmp(total) > 0:
				o.status = feedstypes.PRICE_STATUS_UNKNOWN_SIGNAL_ID
			case total.Cmp(powerQuorum) < 0 || new(big.Int).Lsh(avail, 1).Cmp(total) < 0 || len(entries) == 0:
				o.status = feedstypes.PRICE_STATUS_NOT_READY
			default:
				o.status = feedstypes.PRICE_STATUS_AVAILABLE
				meds, okm := ref.Medians(entries)
				o.prices = meds
				o.lo, o.hi = entries[0].Price, entries[0].Price
				for _, en := range entries {
					if en.Price < o.lo {
						o.lo = en.Price
					}
					if en.Price > o.hi {
						o.hi = en.Price
					}
				}
				if !okm {
					o.rangeOnly = true
					m.nTieFallback++
				}
			}
			outcomes = append(outcomes, o)
		}
		match := false
		for _, o := range outcomes {
			if got.Status != o.status {
				continue
			}
			if o.status != feedstypes.PRICE_STATUS_AVAILABLE {
				if got.Price == 0 {
					match = true
				}
				continue
			}
			if got.Price < o.lo || got.Price > o.hi {
				continue
			}
			if o.rangeOnly || o.prices[got.Price] {
				match = true
			}
		}
		o0 := outcomes[0]
		if !match {
			inv := "price_status"
			if got.Status == o0.status {
				inv = "price_median"
			}
			var want []uint64
			for p := range o0.prices {
				want = append(want, p)
			}
			sort.Slice(want, func(i, j int) bool { return want[i] < want[j] })
			e.Fail("C06", inv, fmt.Sprint(o0.status), "feed %s (interval %d) at height %d time %d: chain %v price %d; reference: status %v median(s) %v range [%d,%d] from %d fresh AVAILABLE prices (quorum power %s, %d deactivated-this-block variants tried)",
				feed.SignalID, feed.Interval, blk.Height, now, got.Status, got.Price, o0.status, want, o0.lo, o0.hi, o0.nFresh, powerQuorum, len(outcomes))
			return
		}
		if got.Timestamp != now {
			e.Fail("C06", "price_timestamp", "", "feed %s: price timestamp %d, block time %d", feed.SignalID, got.Timestamp, now)
			return
		}
		switch got.Status {
		case feedstypes.PRICE_STATUS_AVAILABLE:
			if o0.nFresh >= 3 && o0.nTs >= 2 {
				m.nAvailable3++
			}
		case feedstypes.PRICE_STATUS_NOT_READY:
			m.nNotReady++
		case feedstypes.PRICE_STATUS_UNKNOWN_SIGNAL_ID:
			m.nUnknown++
		}
		e.St.Trace(fmt.Sprintf("price(%d,n%d,ts%d)", got.Status, o0.nFresh, o0.nTs))
		e.St.Covered(fmt.Sprintf("c06.status%d.fresh%d.ts%d", got.Status, o0.nFresh, o0.nTs))
	}
	// boundary-biased differential sampling of the real aggregation functions on tiny integer inputs (exact-half crossings and
	// section boundaries are only hit with small numbers); rides along the history, seeded from the tape
	for k := 0; k < 2; k++ {
		n := 1 + e.Ch.Intn("c06.diff.n", 5)
		var wp []feedstypes.WeightedPrice
		var prices []uint64
		var ws []*big.Int
		for i := 0; i < n; i++ {
			w := int64(1 + e.Ch.Intn("c06.diff.w", 4))
			pr := uint64(1 + e.Ch.Intn("c06.diff.p", 5))
			wp = append(wp, feedstypes.NewWeightedPrice(math.NewInt(w), pr))
			prices = append(prices, pr)
			ws = append(ws, big.NewInt(w))
		}
		got, err := feedstypes.MedianWeightedPrice(wp)
		want := ref.WeightedMedianOf(prices, ws)
		if err != nil || got != want {
			e.Fail("C06", "weighted_median_differential", "", "weights/prices %v: repository median %d (err %v), specification %d", wp, got, err, want)
			return
		}
		var infos []feedstypes.ValidatorPriceInfo
		var entries []ref.PriceEntry
		for i := 0; i < n; i++ {
			pw := int64(1 + e.Ch.Intn("c06.diff.pw", 8))
			pr := uint64(1 + e.Ch.Intn("c06.diff.pp", 6))
			ts := int64(1 + e.Ch.Intn("c06.diff.ts", 3))
			infos = append(infos, feedstypes.NewValidatorPriceInfo(feedstypes.SIGNAL_PRICE_STATUS_AVAILABLE, math.NewInt(pw), pr, ts))
			entries = append(entries, ref.PriceEntry{Price: pr, Power: big.NewInt(pw), Time: ts})
		}
		got2, err := feedstypes.MedianValidatorPriceInfos(infos)
		meds, okm := ref.Medians(entries)
		if err != nil || (okm && !meds[got2]) {
			e.Fail("C06", "median_differential", "", "validator prices %v: repository median %d (err %v), specification allows %v", infos, got2, err, meds)
			return
		}
		e.St.Probe("c06_median_differential_draws")
	}
	_ = bytes.Equal
	_ = sdk.Coins{}
}

func (m *C06) Pending(e *Env) bool { return false }
func (m *C06) Finish(e *Env)       {}
func (m *C06) NonTrivial(e *Env) bool {
	e.St.ProbeN("c06_feed_price_evaluations", m.nEval)
	e.St.ProbeN("c06_available_3plus_prices_2plus_timestamps", m.nAvailable3)
	e.St.ProbeN("c06_not_ready", m.nNotReady)
	e.St.ProbeN("c06_unknown_signal", m.nUnknown)
	e.St.ProbeN("c06_tie_group_range_fallback", m.nTieFallback)
	return m.nAvailable3 > 0
}
