package chainsim

import (
	"github.com/bandprotocol/chain/v3/pkg/tickmath"
	"math/bits"
	"bytes"
	"encoding/hex"
	"fmt"
	"strings"

	authtypes "github.com/cosmos/cosmos-sdk/x/auth/types"

	bandtsstypes "github.com/bandprotocol/chain/v3/x/bandtss/types"
	feedstypes "github.com/bandprotocol/chain/v3/x/feeds/types"
	oracletypes "github.com/bandprotocol/chain/v3/x/oracle/types"
	tunneltypes "github.com/bandprotocol/chain/v3/x/tunnel/types"

	"verifsim/ref"
	"verifsim/world"
)

// C11 — signed payloads are bound to their request and decode to on-chain data.

type provenance struct {
	Kind       string // text, feeds, oracle, tunnel, transition
	OrigHash   []byte
	OrigDesc   string
	Text       []byte
	SignalIDs  []string
	Encoder    int32
	RequestID  uint64
	TunnelID   uint64
	Sequence   uint64
	PricesAt   map[string]feedstypes.Price // feeds prices the content must encode
	Twin       uint64                      // the other signing created by the same request (incoming group)
}

type C11 struct {
	nTickDiff int
	nRoundTrip, nTooLongRefused int
	prov       map[uint64]*provenance
	checked    map[uint64]bool
	messages   map[string]uint64
	prevPrices map[string]feedstypes.Price
	reqOrder   []*reqMeta
	kinds      map[string]int
	nTick, nInternalRejected, nChecked, nTickInconclusive int
}

func (m *C11) Prop() string { return "C11" }

func (m *C11) OnBlock(e *Env, blk *world.BlockRecord) {
	sh := getShadow(e)
	sh.Advance(e, blk)
	ctx := e.Ctx()
	bk := e.App().BandtssKeeper
	chain := e.W.Cfg.ChainID
	if m.prov == nil {
		m.prov, m.checked, m.messages, m.prevPrices, m.kinds = map[uint64]*provenance{}, map[uint64]bool{}, map[string]uint64{}, map[string]feedstypes.Price{}, map[string]int{}
	}
	// differential draws of the real tick encoder on boundary-family prices (the same function encodes every tick-encoded payload;
	// histories reach only the prices the market actor happened to hold when a signing was requested)
	for i := 0; i < 6; i++ {
		var p uint64
		switch e.Ch.Intn("c11.tick.family", 4) {
		case 0:
			p = e.Ch.U64("c11.tick.any")
		case 1:
			p = e.Ch.U64("c11.tick.small") >> uint(e.Ch.Intn("c11.tick.shift", 64))
		default:
			k := e.Ch.Intn("c11.tick.pow2", 64)
			p = uint64(1) << uint(k)
			switch e.Ch.Intn("c11.tick.pow2off", 4) {
			case 1:
				p++
			case 2:
				p--
			case 3:
				if k > 16 {
					p += e.Ch.U64("c11.tick.pow2low") >> uint(64-(k-16))
				}
			}
		}
		if p == 0 {
			continue
		}
		enc, err := tickmath.PriceToTick(p)
		if err != nil {
			e.Fail("C11", "tick_encoding_differential", "error", "PriceToTick(%d) fails: %v", p, err)
			return
		}
		ok, conclusive := ref.TickBracket(p, enc)
		m.nTickDiff++
		if conclusive && !ok {
			e.Fail("C11", "tick_encoding_differential", "", "PriceToTick(%d) = %d, which is not the largest tick whose price does not exceed it", p, enc)
			return
		}
	}
	// round trip of the payload encoders on boundary-family contents: every signal id the chain accepts (1..32 bytes) with any
	// price encodes, and the payload decodes back to the same ids, values and time; a longer id cannot be represented and is refused
	for i := 0; i < 2; i++ {
		n := 1 + e.Ch.Intn("c11.rt.n", 3)
		var ps []feedstypes.Price
		tooLong := false
		for j := 0; j < n; j++ {
			l := []int{1, 10, 31, 32, 32, 33}[e.Ch.Intn("c11.rt.idlen", 6)]
			id := strings.Repeat(string(rune('A'+j)), l)
			if l > 32 {
				tooLong = true
			}
			pr := []uint64{0, 1, 1<<64 - 1, e.Ch.U64("c11.rt.price")}[e.Ch.Intn("c11.rt.pricek", 4)]
			ps = append(ps, feedstypes.Price{Status: feedstypes.PRICE_STATUS_AVAILABLE, SignalID: id, Price: pr, Timestamp: 1})
		}
		ts := int64(e.Ch.Intn("c11.rt.ts", 1<<30))
		seq := e.Ch.U64("c11.rt.seq")
		for _, enc := range []feedstypes.Encoder{feedstypes.ENCODER_FIXED_POINT_ABI, feedstypes.ENCODER_TICK_ABI} {
			for _, kind := range []string{"feeds", "tunnel"} {
				var out []byte
				var err error
				if kind == "feeds" {
					out, err = feedstypes.EncodeTSS(ps, ts, enc)
				} else {
					out, err = tunneltypes.EncodeTSS(seq, ps, ts, enc)
				}
				m.nRoundTrip++
				if tooLong {
					if err == nil {
						e.Fail("C11", "encoder_round_trip", "too_long_accepted", "%s payload with a signal id longer than 32 bytes encodes: %v", kind, ps)
						return
					}
					continue
				}
				if err != nil || len(out) < 4 {
					e.Fail("C11", "encoder_round_trip", "refused", "%s payload (encoder %v) of %v cannot be encoded: %v", kind, enc, ps, err)
					return
				}
				var got []ref.RelayPrice
				var gotTs int64
				var derr error
				if kind == "feeds" {
					got, gotTs, derr = ref.DecodeFeedsPrices(out[4:])
				} else {
					var gotSeq uint64
					gotSeq, got, gotTs, derr = ref.DecodeTunnelPacket(out[4:])
					if derr == nil && gotSeq != seq {
						derr = fmt.Errorf("sequence %d decodes as %d", seq, gotSeq)
					}
				}
				if derr == nil && (gotTs != ts || len(got) != len(ps)) {
					derr = fmt.Errorf("time %d / %d prices decode as time %d / %d prices", ts, len(ps), gotTs, len(got))
				}
				for j := 0; derr == nil && j < len(ps); j++ {
					if got[j].SignalID != ps[j].SignalID {
						derr = fmt.Errorf("signal id %q decodes as %q", ps[j].SignalID, got[j].SignalID)
					} else if enc == feedstypes.ENCODER_FIXED_POINT_ABI && got[j].Value != ps[j].Price {
						derr = fmt.Errorf("price %d decodes as %d", ps[j].Price, got[j].Value)
					} else if enc == feedstypes.ENCODER_TICK_ABI {
						if ps[j].Price == 0 && got[j].Value != 0 {
							derr = fmt.Errorf("price 0 encodes as tick value %d", got[j].Value)
						} else if ps[j].Price != 0 {
							if ok, conclusive := ref.TickBracket(ps[j].Price, got[j].Value); conclusive && !ok {
								derr = fmt.Errorf("price %d encodes as tick value %d, not the largest tick whose price does not exceed it", ps[j].Price, got[j].Value)
							}
						}
					}
				}
				if derr != nil {
					e.Fail("C11", "encoder_round_trip", kind, "%s payload (encoder %v) of %v: %v", kind, enc, ps, derr)
					return
				}
			}
		}
	}
	now := blk.Time.Unix()
	bind := func(bandtssID uint64, p *provenance) {
		bs, err := bk.GetSigning(ctx, bandtsstypes.SigningID(bandtssID))
		if err != nil {
			return
		}
		for _, sid := range []uint64{uint64(bs.CurrentGroupSigningID), uint64(bs.IncomingGroupSigningID)} {
			if sid != 0 {
				cp := *p
				m.prov[sid] = &cp
			}
		}
	}
	for _, tx := range blk.Txs {
		switch meta := tx.Intent.Meta.(type) {
		case *reqMeta:
			if tx.OK() {
				m.reqOrder = append(m.reqOrder, meta)
			}
		case *reqSigMeta:
			internal := strings.HasPrefix(meta.Content, "internal_")
			if !tx.OK() {
				if internal && !infraReject(tx) {
					m.nInternalRejected++
					e.St.Trace("internal-content-rejected")
				}
				if meta.Content == "feeds" && tx.Result.Codespace == feedstypes.ModuleName && tx.Result.Code == feedstypes.ErrInvalidSignal.ABCICode() {
					// "this signal id cannot be encoded" is a legitimate refusal only for ids longer than the 32 bytes of the payload's field
					long := false
					for _, id := range meta.SignalIDs {
						if len(id) > 32 {
							long = true
						}
					}
					if !long {
						e.Fail("C11", "encodable_order_refused", "", "feeds signature order for %q (all ids at most 32 bytes) refused: %s", meta.SignalIDs, firstLine(tx.Result.Log))
						return
					}
					m.nTooLongRefused++
				}
				continue
			}
			if internal {
				e.Fail("C11", "internal_content_signed_for_user", meta.Content, "MsgRequestSignature by %s with module-internal content %s was accepted", meta.Sender.Name, meta.Content)
				return
			}
			for _, ev := range EventsOfType(ParseEvents(tx.Result.Events), bandtsstypes.EventTypeSigningRequestCreated) {
				p := &provenance{Kind: meta.Content, OrigHash: ref.DirectOriginatorHash(chain, meta.Msg.Sender, meta.Msg.Memo), OrigDesc: fmt.Sprintf("direct(%s,%s,%q)", chain, meta.Msg.Sender, meta.Msg.Memo),
					Text: meta.Text, SignalIDs: meta.SignalIDs, Encoder: meta.Encoder, RequestID: meta.RequestID}
				if meta.Content == "feeds" {
					p.PricesAt = m.prevPrices
				}
				bind(ev.U64(bandtsstypes.AttributeKeySigningID), p)
			}
		case *tunnelMeta:
			// manual trigger: packet created inside the transaction
			if tx.OK() && meta.Kind == "trigger" {
				m.bindTunnelPackets(e, chain, bind)
			}
		}
	}
	// end block: oracle results with an encoder
	for _, ev := range EventsOfType(ParseEvents(blk.Resp.Events), oracletypes.EventTypeResolve) {
		if ev.Get(oracletypes.AttributeKeySigningID) == "" || ev.Mode != "EndBlock" {
			continue
		}
		rid := ev.U64(oracletypes.AttributeKeyID)
		if rid == 0 || int(rid) > len(m.reqOrder) {
			continue
		}
		rq := m.reqOrder[rid-1].Msg
		bind(ev.U64(oracletypes.AttributeKeySigningID), &provenance{Kind: "oracle", OrigHash: ref.DirectOriginatorHash(chain, rq.Sender, ""), OrigDesc: fmt.Sprintf("direct(%s,%s,\"\")", chain, rq.Sender), Encoder: int32(rq.TSSEncoder), RequestID: rid})
	}
	m.bindTunnelPackets(e, chain, bind)
	// hand-over messages of group transitions
	for _, a := range sh.J.Assigns {
		if a.Att.N == 1 && strings.Contains(a.Sig.ContentType, "GroupTransitionSignatureOrder") {
			mod := authtypes.NewModuleAddress(bandtsstypes.ModuleName).String()
			m.prov[a.Sig.ID] = &provenance{Kind: "transition", OrigHash: ref.DirectOriginatorHash(chain, mod, ""), OrigDesc: "direct(bandtss module)"}
		}
	}
	// check every signing created in this block
	for _, a := range sh.J.Assigns {
		if a.Att.N != 1 || m.checked[a.Sig.ID] {
			continue
		}
		sg := a.Sig
		m.checked[sg.ID] = true
		p := m.prov[sg.ID]
		if p == nil {
			e.Fail("C11", "unattributed_signing", "", "signing %d (%s) was created but no request the simulator knows of accounts for it", sg.ID, sg.ContentType)
			return
		}
		if other, dup := m.messages[string(sg.Message)]; dup {
			e.Fail("C11", "signed_message_not_unique", p.Kind, "signings %d and %d share the signed message %X", other, sg.ID, sg.Message)
			return
		}
		m.messages[string(sg.Message)] = sg.ID
		sm, err := ref.SplitMessage(sg.Message)
		if err != nil {
			e.Fail("C11", "message_layout", "", "signing %d: %v", sg.ID, err)
			return
		}
		if !bytes.Equal(sm.OriginatorHash, p.OrigHash) {
			e.Fail("C11", "originator_binding", p.Kind, "signing %d: message starts with %X, hash of originator %s is %X", sg.ID, sm.OriginatorHash, p.OrigDesc, p.OrigHash)
			return
		}
		if int64(sm.Time) != now || sm.ID != sg.ID {
			e.Fail("C11", "time_id_binding", p.Kind, "signing %d at block time %d: message carries time %d id %d", sg.ID, now, sm.Time, sm.ID)
			return
		}
		if !m.checkContent(e, sg, p, sm, blk) {
			return
		}
		m.nChecked++
		m.kinds[p.Kind]++
		e.St.Trace("signed:" + p.Kind)
		e.St.Covered(fmt.Sprintf("c11.%s.enc%d", p.Kind, p.Encoder))
	}
	m.prevPrices = map[string]feedstypes.Price{}
	for _, pr := range e.App().FeedsKeeper.GetAllPrices(ctx) {
		m.prevPrices[pr.SignalID] = pr
	}
}

func (m *C11) bindTunnelPackets(e *Env, chain string, bind func(uint64, *provenance)) {
	ts, ok := e.Shared["tunnel.shadow"].(*TunnelShadow)
	if !ok {
		return
	}
	ctx := e.Ctx()
	tk := e.App().TunnelKeeper
	ts.Advance(e, e.W.Blocks[e.W.Height])
	for _, jp := range ts.JPackets {
		if jp.Outcome != "success" || !jp.T.IsTSS {
			continue
		}
		pk, err := tk.GetPacket(ctx, jp.T.ID, jp.Seq)
		if err != nil {
			continue
		}
		rc, err := pk.GetReceiptValue()
		if err != nil {
			continue
		}
		tr, ok := rc.(*tunneltypes.TSSPacketReceipt)
		if !ok {
			continue
		}
		ct, err := tk.GetTunnel(ctx, jp.T.ID)
		if err != nil {
			continue
		}
		rt, _ := ct.GetRouteValue()
		route, ok := rt.(*tunneltypes.TSSRoute)
		if !ok {
			continue
		}
		bind(uint64(tr.SigningID), &provenance{Kind: "tunnel", OrigHash: ref.TunnelOriginatorHash(chain, jp.T.ID, route.DestinationChainID, route.DestinationContractAddress),
			OrigDesc: fmt.Sprintf("tunnel(%s,%d,%s,%s)", chain, jp.T.ID, route.DestinationChainID, route.DestinationContractAddress), Encoder: int32(route.Encoder), TunnelID: jp.T.ID, Sequence: jp.Seq})
	}
}

func (m *C11) checkPrices(e *Env, sid uint64, kind string, enc int32, got []ref.RelayPrice, want []feedstypes.Price) bool {
	if len(got) != len(want) {
		e.Fail("C11", "payload_prices", kind, "signing %d: payload carries %d prices, on-chain data has %d", sid, len(got), len(want))
		return false
	}
	for i, w := range want {
		if got[i].SignalID != w.SignalID {
			e.Fail("C11", "payload_prices", kind, "signing %d: price %d is for signal %q, expected %q", sid, i, got[i].SignalID, w.SignalID)
			return false
		}
		if enc == int32(feedstypes.ENCODER_TICK_ABI) {
			ok, conclusive := ref.TickBracket(w.Price, got[i].Value)
			if !conclusive {
				m.nTickInconclusive++
				continue
			}
			m.nTick++
			if w.Price > 2 {
				// reach probe: prices within 2^-16 (relative) above a power of two, where bit-length based arithmetic changes regime
				top := uint64(1) << uint(63-bits.LeadingZeros64(w.Price))
				if w.Price-top <= top>>16 {
					e.St.Probe("c11_tick_encoding_of_price_just_above_power_of_two")
				}
			}
			if !ok {
				e.Fail("C11", "tick_encoding", "", "signing %d: price %d of %s is encoded as tick value %d, which is not the largest tick whose price does not exceed it", sid, w.Price, w.SignalID, got[i].Value)
				return false
			}
		} else if got[i].Value != w.Price {
			e.Fail("C11", "payload_prices", kind, "signing %d: payload price of %s is %d, on-chain %d", sid, w.SignalID, got[i].Value, w.Price)
			return false
		}
	}
	return true
}

func (m *C11) checkContent(e *Env, sg *mSigning, p *provenance, sm ref.SignedMessage, blk *world.BlockRecord) bool {
	ctx := e.Ctx()
	wantTag := func(name string) bool {
		if !bytes.Equal(sm.Tag, ref.Tag(name)) {
			e.Fail("C11", "content_tag", p.Kind, "signing %d (%s): content tag %X, expected keccak(%q)[:4] = %X; message %X", sg.ID, p.Kind, sm.Tag, name, ref.Tag(name), sg.Message)
			return false
		}
		return true
	}
	route := map[string]string{"text": "tss", "feeds": "feeds", "tunnel": "tunnel", "oracle": "oracle", "transition": "bandtss"}[p.Kind]
	if !bytes.Equal(sm.Route, ref.Tag(route)) {
		e.Fail("C11", "route_tag", p.Kind, "signing %d (%s): route selector %X, expected keccak(%q)[:4] = %X", sg.ID, p.Kind, sm.Route, route, ref.Tag(route))
		return false
	}
	encName := map[int32]string{int32(feedstypes.ENCODER_FIXED_POINT_ABI): "FixedPointABI", int32(feedstypes.ENCODER_TICK_ABI): "TickABI"}
	switch p.Kind {
	case "text":
		if !wantTag("Text") {
			return false
		}
		if !bytes.Equal(sm.Body, p.Text) {
			e.Fail("C11", "payload_text", "", "signing %d: payload %q, requested text %q", sg.ID, sm.Body, p.Text)
			return false
		}
	case "feeds":
		if !wantTag(encName[p.Encoder]) {
			return false
		}
		got, ts, err := ref.DecodeFeedsPrices(sm.Body)
		if err != nil {
			e.Fail("C11", "payload_decode", "feeds", "signing %d: %v", sg.ID, err)
			return false
		}
		if ts != blk.Time.Unix() {
			e.Fail("C11", "payload_time", "feeds", "signing %d: payload timestamp %d, block time %d", sg.ID, ts, blk.Time.Unix())
			return false
		}
		var want []feedstypes.Price
		for _, id := range p.SignalIDs {
			want = append(want, priceOf(p.PricesAt, id, blk.Time.Unix()))
		}
		return m.checkPrices(e, sg.ID, "feeds", p.Encoder, got, want)
	case "tunnel":
		if !wantTag(encName[p.Encoder]) {
			return false
		}
		seq, got, created, err := ref.DecodeTunnelPacket(sm.Body)
		if err != nil {
			e.Fail("C11", "payload_decode", "tunnel", "signing %d: %v", sg.ID, err)
			return false
		}
		pk, err := e.App().TunnelKeeper.GetPacket(ctx, p.TunnelID, p.Sequence)
		if err != nil {
			return true
		}
		if seq != pk.Sequence || created != pk.CreatedAt {
			e.Fail("C11", "payload_packet_header", "", "signing %d: payload sequence %d created %d, packet %d/%d has sequence %d created %d", sg.ID, seq, created, p.TunnelID, p.Sequence, pk.Sequence, pk.CreatedAt)
			return false
		}
		return m.checkPrices(e, sg.ID, "tunnel", p.Encoder, got, pk.Prices)
	case "oracle":
		res, err := e.App().OracleKeeper.GetResult(ctx, oracletypes.RequestID(p.RequestID))
		if err != nil {
			e.Fail("C11", "payload_without_result", "", "signing %d: oracle result %d does not exist", sg.ID, p.RequestID)
			return false
		}
		var f ref.ResultFields
		switch oracletypes.Encoder(p.Encoder) {
		case oracletypes.ENCODER_PROTO:
			if !wantTag("Proto") {
				return false
			}
			var r oracletypes.Result
			if err := r.Unmarshal(sm.Body); err != nil {
				e.Fail("C11", "payload_decode", "proto", "signing %d: %v", sg.ID, err)
				return false
			}
			f = ref.ResultFields{ClientID: r.ClientID, OracleScriptID: uint64(r.OracleScriptID), Calldata: r.Calldata, AskCount: r.AskCount, MinCount: r.MinCount, RequestID: uint64(r.RequestID),
				AnsCount: r.AnsCount, RequestTime: r.RequestTime, ResolveTime: r.ResolveTime, ResolveStatus: int32(r.ResolveStatus), Result: r.Result}
		case oracletypes.ENCODER_FULL_ABI:
			if !wantTag("FullABI") {
				return false
			}
			f, err = ref.DecodeFullResult(sm.Body)
		case oracletypes.ENCODER_PARTIAL_ABI:
			if !wantTag("PartialABI") {
				return false
			}
			f, err = ref.DecodePartialResult(sm.Body)
			// fields absent from the partial encoding
			f.ClientID, f.AskCount, f.AnsCount, f.RequestTime = res.ClientID, res.AskCount, res.AnsCount, res.RequestTime
		}
		if err != nil {
			e.Fail("C11", "payload_decode", "oracle", "signing %d: %v", sg.ID, err)
			return false
		}
		if f.ClientID != res.ClientID || f.OracleScriptID != uint64(res.OracleScriptID) || !bytes.Equal(f.Calldata, res.Calldata) || f.AskCount != res.AskCount || f.MinCount != res.MinCount ||
			f.RequestID != uint64(res.RequestID) || f.AnsCount != res.AnsCount || f.RequestTime != res.RequestTime || f.ResolveTime != res.ResolveTime || f.ResolveStatus != int32(res.ResolveStatus) ||
			!(bytes.Equal(f.Result, res.Result) || len(f.Result)+len(res.Result) == 0) {
			e.Fail("C11", "payload_result", fmt.Sprint(p.Encoder), "signing %d: payload decodes to %+v, stored result is %s", sg.ID, f, res.String())
			return false
		}
	case "transition":
		if !wantTag("Transition") {
			return false
		}
		tr, found := e.App().BandtssKeeper.GetGroupTransition(ctx)
		if !found {
			return true
		}
		if len(sm.Body) != 33+8 || !bytes.Equal(sm.Body[:33], tr.IncomingGroupPubKey) || hex.EncodeToString(sm.Body[33:]) != fmt.Sprintf("%016x", uint64(tr.ExecTime.Unix())) {
			e.Fail("C11", "payload_transition", "", "signing %d: payload %X, transition has incoming key %X and exec time %d", sg.ID, sm.Body, []byte(tr.IncomingGroupPubKey), tr.ExecTime.Unix())
			return false
		}
	}
	return true
}

func (m *C11) Pending(e *Env) bool { return false }
func (m *C11) Finish(e *Env)       {}
func (m *C11) NonTrivial(e *Env) bool {
	e.St.ProbeN("c11_signings_checked", m.nChecked)
	e.St.ProbeN("c11_tick_encodings_checked", m.nTick)
	e.St.ProbeN("c11_tick_differential_draws", m.nTickDiff)
	e.St.ProbeN("c11_encoder_round_trips", m.nRoundTrip)
	e.St.ProbeN("c11_order_with_too_long_signal_id_refused", m.nTooLongRefused)
	e.St.ProbeN("c11_tick_inconclusive", m.nTickInconclusive)
	e.St.ProbeN("c11_internal_content_rejected", m.nInternalRejected)
	for _, k := range sortedKeysInt(m.kinds) {
		e.St.ProbeN("c11_kind_"+k, m.kinds[k])
	}
	return len(m.kinds) >= 3 && m.nTick > 0
}
