package chainsim

import (
	"fmt"
	"sort"

	"cosmossdk.io/math"

	sdk "github.com/cosmos/cosmos-sdk/types"
	authtypes "github.com/cosmos/cosmos-sdk/x/auth/types"
	banktypes "github.com/cosmos/cosmos-sdk/x/bank/types"
	distrtypes "github.com/cosmos/cosmos-sdk/x/distribution/types"
	minttypes "github.com/cosmos/cosmos-sdk/x/mint/types"

	"github.com/bandprotocol/chain/v3/pkg/tss"

	"verifsim/world"
)

// FeeActor puts fees of several denominations into the fee pool.
type FeeActor struct {
	Users []*world.Account
	Rate  int
}

func (a *FeeActor) OnBlock(e *Env, blk *world.BlockRecord) {}
func (a *FeeActor) Act(e *Env) {
	if e.Step < 2 || !e.Ch.Bool("fee.tx", a.Rate) {
		return
	}
	n := 1 + e.Ch.Intn("fee.n", 3)
	for i := 0; i < n; i++ {
		u := a.Users[e.Ch.Intn("fee.user", len(a.Users))]
		fee := sdk.NewCoins()
		amounts := []int64{0, 1, 2, 3, 17, 999, 123456, 10_000_019}
		if x := amounts[e.Ch.Intn("fee.uband", len(amounts))]; x > 0 {
			fee = fee.Add(sdk.NewInt64Coin("uband", x))
		}
		if e.Ch.Bool("fee.second", 400) {
			if x := amounts[e.Ch.Intn("fee.uusd", len(amounts))]; x > 0 {
				fee = fee.Add(sdk.NewInt64Coin("uusd", x))
			}
		}
		msg := banktypes.NewMsgSend(u.Addr, a.Users[0].Addr, sdk.NewCoins(sdk.NewInt64Coin("uband", 1)))
		e.W.Submit(&world.Intent{Signer: u, Msgs: []sdk.Msg{msg}, Fee: fee, Tag: "fee_tx"})
	}
}

// C14 — block reward allocation conserves coins and pays only active participants.

type c14Snapshot struct {
	FeePool     sdk.Coins
	Outstanding map[string]sdk.DecCoins // validator operator -> outstanding rewards
	Community   sdk.DecCoins
	Members     map[string]sdk.Coins // current-group member address -> balance
	Eligible    map[string]bool      // members active with a queued nonce
	CurGroup    uint64
	OracleActive map[string]bool
	OraclePct   uint64
	TSSPct      uint64
	Tax         math.LegacyDec
	Supply      sdk.Coins
	DistrBal    sdk.Coins
	FlagsDisagree []string // members whose bandtss record and tss record disagree about being active
}

type C14 struct {
	prev  *c14Snapshot
	nQuiet, nNT, nBlocks int
}

func (m *C14) Prop() string { return "C14" }

func (m *C14) snapshot(e *Env) *c14Snapshot {
	ctx := e.Ctx()
	app := e.App()
	s := &c14Snapshot{Outstanding: map[string]sdk.DecCoins{}, Members: map[string]sdk.Coins{}, Eligible: map[string]bool{}, OracleActive: map[string]bool{}}
	s.FeePool = app.BankKeeper.GetAllBalances(ctx, authtypes.NewModuleAddress(authtypes.FeeCollectorName))
	s.DistrBal = app.BankKeeper.GetAllBalances(ctx, authtypes.NewModuleAddress(distrtypes.ModuleName))
	for _, v := range e.W.Vals {
		r, _ := app.DistrKeeper.GetValidatorOutstandingRewards(ctx, v.Val)
		s.Outstanding[v.Val.String()] = r.Rewards
		s.OracleActive[v.Val.String()] = app.OracleKeeper.GetValidatorStatus(ctx, v.Val).IsActive
	}
	fp, _ := app.DistrKeeper.FeePool.Get(ctx)
	s.Community = fp.CommunityPool
	s.CurGroup = uint64(app.BandtssKeeper.GetCurrentGroup(ctx).GroupID)
	if s.CurGroup != 0 {
		ms, _ := app.TSSKeeper.GetGroupMembers(ctx, tss.GroupID(s.CurGroup))
		for _, mm := range ms {
			acc := sdk.MustAccAddressFromBech32(mm.Address)
			s.Members[mm.Address] = app.BankKeeper.GetAllBalances(ctx, acc)
			q := app.TSSKeeper.GetDEQueue(ctx, acc)
			// "active" is what the owning module (bandtss) records for the member of the current group; the tss member record
			// carries a copy of the flag that reward allocation reads - a participant the owner has deactivated is inactive
			// whatever the copy says
			owner, err := app.BandtssKeeper.GetMember(ctx, acc, tss.GroupID(s.CurGroup))
			s.Eligible[mm.Address] = err == nil && owner.IsActive && mm.IsActive && q.Tail > q.Head
			if err == nil && owner.IsActive != mm.IsActive {
				s.FlagsDisagree = append(s.FlagsDisagree, mm.Address)
			}
		}
	}
	s.OraclePct = app.OracleKeeper.GetParams(ctx).OracleRewardPercentage
	s.TSSPct = app.BandtssKeeper.GetParams(ctx).RewardPercentage
	s.Tax, _ = app.DistrKeeper.GetCommunityTax(ctx)
	return s
}

func supplyOf(e *Env) sdk.Coins {
	ctx := e.Ctx()
	out := sdk.NewCoins()
	for _, d := range []string{"uband", "uusd", "uatom"} {
		out = out.Add(e.App().BankKeeper.GetSupply(ctx, d))
	}
	return out
}

func (m *C14) OnBlock(e *Env, blk *world.BlockRecord) {
	m.nBlocks++
	ctx := e.Ctx()
	app := e.App()
	prev := m.prev
	cur := m.snapshot(e)
	cur.Supply = supplyOf(e)
	m.prev = cur
	if prev == nil {
		return
	}
	evs := ParseEvents(blk.Resp.Events)
	for _, ev := range evs {
		if ev.Type == "slash" {
			e.St.Probe("c14_validator_slashed")
		}
	}
	// minted amount of this block (SDK minter, trusted)
	minted := sdk.NewCoins()
	for _, ev := range EventsOfType(evs, minttypes.EventTypeMint) {
		if a, ok := math.NewIntFromString(ev.Get(sdk.AttributeKeyAmount)); ok && a.IsPositive() {
			minted = minted.Add(sdk.NewCoin("uband", a))
		}
	}
	// conservation on every block: supply changes only by the minted amount
	if !cur.Supply.Equal(prev.Supply.Add(minted...)) {
		e.Fail("C14", "supply_conservation", "", "total supply went from %s to %s although only %s was minted", prev.Supply, cur.Supply, minted)
		return
	}
	// the distribution module account covers community pool + outstanding rewards
	need := cur.Community
	for _, v := range sortedKeysDec(cur.Outstanding) {
		need = need.Add(cur.Outstanding[v]...)
	}
	needInt, _ := need.TruncateDecimal()
	if !cur.DistrBal.IsAllGTE(needInt) {
		e.Fail("C14", "distribution_not_backed", "", "distribution module holds %s but community pool + outstanding rewards amount to %s", cur.DistrBal, need)
		return
	}
	// quiet block: no transactions and no end-block bank movement => the state difference is the begin-block allocation
	quiet := len(blk.Txs) == 0
	for _, ev := range evs {
		if ev.Mode == "EndBlock" && (ev.Type == banktypes.EventTypeTransfer || ev.Type == banktypes.EventTypeCoinSpent) {
			quiet = false
		}
	}
	if !quiet {
		return
	}
	m.nQuiet++
	F := sdk.NewDecCoinsFromCoins(prev.FeePool.Add(minted...)...)
	votes := blk.Req.DecidedLastCommit.Votes
	expOut := map[string]sdk.DecCoins{}
	expCommunity := sdk.DecCoins{}
	add := func(op string, c sdk.DecCoins) { expOut[op] = expOut[op].Add(c...) }
	consToOp := map[string]string{}
	for _, v := range e.W.Vals {
		consToOp[string(v.ConsAddr)] = v.Val.String()
	}
	// 1. oracle share to active voters in proportion to voting power
	var totalActive int64
	inactiveVoter := false
	for _, vt := range votes {
		if prev.OracleActive[consToOp[string(vt.Validator.Address)]] {
			totalActive += vt.Validator.Power
		} else {
			inactiveVoter = true
		}
	}
	pool := F
	nonZeroRemainder := false
	if totalActive > 0 {
		shareInt, _ := pool.MulDecTruncate(math.LegacyNewDecWithPrec(int64(prev.OraclePct), 2)).TruncateDecimal()
		share := sdk.NewDecCoinsFromCoins(shareInt...)
		commInt, _ := share.MulDecTruncate(prev.Tax).TruncateDecimal()
		expCommunity = expCommunity.Add(sdk.NewDecCoinsFromCoins(commInt...)...)
		reward := share.Sub(sdk.NewDecCoinsFromCoins(commInt...))
		remaining := reward
		for _, vt := range votes {
			op := consToOp[string(vt.Validator.Address)]
			if !prev.OracleActive[op] {
				continue
			}
			frac := math.LegacyNewDec(vt.Validator.Power).QuoTruncate(math.LegacyNewDec(totalActive))
			r := reward.MulDecTruncate(frac)
			add(op, r)
			remaining = remaining.Sub(r)
		}
		if !remaining.IsZero() {
			nonZeroRemainder = true
		}
		add(consToOp[string(blk.Header.ProposerAddress)], remaining)
		pool = pool.Sub(share)
	}
	// 2. signing-member share of what remains, split equally among eligible members
	expMember := map[string]sdk.Coins{}
	var elig []string
	for a, ok := range prev.Eligible {
		if ok {
			elig = append(elig, a)
		}
	}
	sort.Strings(elig)
	if prev.CurGroup != 0 && len(elig) > 0 {
		shareInt, _ := pool.MulDecTruncate(math.LegacyNewDecWithPrec(int64(prev.TSSPct), 2)).TruncateDecimal()
		share := sdk.NewDecCoinsFromCoins(shareInt...)
		frac := math.LegacyOneDec().QuoTruncate(math.LegacyNewDec(int64(len(elig))))
		each, _ := share.MulDecTruncate(math.LegacyOneDec().Sub(prev.Tax)).MulDecTruncate(frac).TruncateDecimal()
		for _, a := range elig {
			expMember[a] = each
		}
		rest := shareInt.Sub(each.MulInt(math.NewInt(int64(len(elig))))...)
		if each.IsZero() {
			rest = shareInt
		}
		expCommunity = expCommunity.Add(sdk.NewDecCoinsFromCoins(rest...)...)
		if !rest.IsZero() {
			nonZeroRemainder = true
		}
		pool = pool.Sub(share)
	}
	// 3. the SDK's distribution of the rest to all voters (trusted algorithm, modelled to isolate the parts above)
	if blk.Height > 1 {
		var totalPower int64
		for _, vt := range votes {
			totalPower += vt.Validator.Power
		}
		if totalPower == 0 {
			expCommunity = expCommunity.Add(pool...)
		} else {
			remaining := pool
			mult := pool.MulDecTruncate(math.LegacyOneDec().Sub(prev.Tax))
			for _, vt := range votes {
				frac := math.LegacyNewDec(vt.Validator.Power).QuoTruncate(math.LegacyNewDec(totalPower))
				r := mult.MulDecTruncate(frac)
				add(consToOp[string(vt.Validator.Address)], r)
				remaining = remaining.Sub(r)
			}
			expCommunity = expCommunity.Add(remaining...)
		}
	}
	// compare
	for _, v := range e.W.Vals {
		op := v.Val.String()
		want := prev.Outstanding[op].Add(expOut[op]...)
		if !cur.Outstanding[op].Equal(want) {
			role := "active"
			if !prev.OracleActive[op] {
				role = "oracle-inactive"
			}
			e.Fail("C14", "validator_reward", role, "validator %s (%s): outstanding rewards %s -> %s, expected %s (fee pool %s, oracle %d%%, tss %d%%, tax %s)", v.Name, role, prev.Outstanding[op], cur.Outstanding[op], want, F, prev.OraclePct, prev.TSSPct, prev.Tax)
			return
		}
	}
	for a, bal := range prev.Members {
		want := bal.Add(expMember[a]...)
		got := app.BankKeeper.GetAllBalances(ctx, sdk.MustAccAddressFromBech32(a))
		if !got.Equal(want) {
			role := "eligible"
			if !prev.Eligible[a] {
				role = "ineligible"
			}
			e.Fail("C14", "member_reward", role, "signing member %s (%s): balance %s -> %s, expected %s", a, role, bal, got, want)
			return
		}
	}
	if want := prev.Community.Add(expCommunity...); !cur.Community.Equal(want) {
		e.Fail("C14", "community_pool", "", "community pool %s -> %s, expected %s", prev.Community, cur.Community, want)
		return
	}
	if !cur.FeePool.IsZero() {
		e.Fail("C14", "fee_pool_not_emptied", "", "fee collector still holds %s after a block without transactions", cur.FeePool)
		return
	}
	if len(F) >= 2 && inactiveVoter && nonZeroRemainder {
		m.nNT++
	}
	e.St.Trace(fmt.Sprintf("alloc(denoms%d,elig%d,inactiveVoter=%v,rem=%v)", len(F), len(elig), inactiveVoter, nonZeroRemainder))
	e.St.Covered(fmt.Sprintf("c14.denoms%d.elig%d.inact=%v.opct%d.tpct%d", len(F), len(elig), inactiveVoter, prev.OraclePct, prev.TSSPct))
}

func sortedKeysDec(m map[string]sdk.DecCoins) []string {
	o := make([]string, 0, len(m))
	for k := range m {
		o = append(o, k)
	}
	sort.Strings(o)
	return o
}

func (m *C14) Pending(e *Env) bool { return false }
func (m *C14) Finish(e *Env)       {}
func (m *C14) NonTrivial(e *Env) bool {
	e.St.ProbeN("c14_blocks", m.nBlocks)
	e.St.ProbeN("c14_quiet_blocks_checked_exactly", m.nQuiet)
	e.St.ProbeN("c14_multi_denom_inactive_voter_remainder", m.nNT)
	return m.nNT > 0
}
