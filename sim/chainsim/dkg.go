package chainsim

import (
	"strings"
	"github.com/decred/dcrd/dcrec/secp256k1/v4"
	"fmt"
	"time"

	cylclient "github.com/bandprotocol/chain/v3/cylinder/client"
	cylstore "github.com/bandprotocol/chain/v3/cylinder/store"
	cylgroup "github.com/bandprotocol/chain/v3/cylinder/workers/group"
	"github.com/bandprotocol/chain/v3/pkg/tss"
	bandtsstypes "github.com/bandprotocol/chain/v3/x/bandtss/types"
	tsstypes "github.com/bandprotocol/chain/v3/x/tss/types"

	"verifsim/core"
	"verifsim/world"
)

// ---------------------------------------------------------------------------------------------
// DKG participants: each member runs the rounds with the real pkg/tss functions and the real
// cylinder share handling; deviations are drawn per member per group.

type dkgState struct {
	GroupID   uint64
	MemberID  uint64
	Deviation string // "" = follows the protocol
	Target    uint64 // recipient / respondent for targeted deviations
	Sent      [4]bool
	Delay     [4]int // per round: blocks to wait; -1 never
	Seen      [4]int64
	R1        *tss.Round1Info
	PrivShare tss.Scalar
	Complained []tsstypes.Complaint
}

type dkgMeta struct {
	Member    *TSSMember
	State     *dkgState
	Round     int // 1,2,3 (3 = confirm or complain)
	Kind      string
	R1        *tsstypes.Round1Info
	R2        *tsstypes.Round2Info
	Complaints []tsstypes.Complaint
	Confirm   bool
	Honest    bool // this message is what the protocol prescribes
}

type DKGActor struct {
	Pool       *TSSPool
	DeviateP   int // permille per (member, group) to deviate
	SilentP    int
	firstOpen  uint64
	States     map[string]*dkgState // "gid/addr"
	victims    map[uint64]uint64
	CorruptP   int // permille of deviators that corrupt a share (on top of the uniform choice)
	NonMemberP int
}

func (a *DKGActor) OnBlock(e *Env, blk *world.BlockRecord) {}

// the order of the secp256k1 group, big endian (the smallest 32-byte value that is not a scalar)
var secp256k1OrderBytes = []byte{0xff, 0xff, 0xff, 0xff, 0xff, 0xff, 0xff, 0xff, 0xff, 0xff, 0xff, 0xff, 0xff, 0xff, 0xff, 0xfe,
	0xba, 0xae, 0xdc, 0xe6, 0xaf, 0x48, 0xa0, 0x3b, 0xbf, 0xd2, 0x5e, 0x8c, 0xd0, 0x36, 0x41, 0x41}

var dkgDeviations = []string{"r1_bad_a0sig", "r1_wrong_len_commits", "r1_other_member_id", "r2_corrupt_share", "r2_wrong_count", "r2_share_for_other",
	"r3_false_complaint", "r3_bad_keysym", "r3_bad_confirm_sig", "dup_r1", "dup_r2", "r3_complain_self", "dup_r3", "r3_forged_complainant", "r3_false_complaint_noncanonical_keysym", "r2_share_out_of_range", "r2_short_share"}

func (a *DKGActor) state(e *Env, gid uint64, m *TSSMember, mid uint64, size uint64) *dkgState {
	if a.States == nil {
		a.States = map[string]*dkgState{}
	}
	k := fmt.Sprintf("%d/%s", gid, m.Acc.Addr.String())
	if st, ok := a.States[k]; ok {
		return st
	}
	st := &dkgState{GroupID: gid, MemberID: mid}
	if !e.Draining && a.DeviateP > 0 && e.Ch.Bool("dkg.deviate", a.DeviateP) {
		st.Deviation = dkgDeviations[e.Ch.Intn("dkg.deviation", len(dkgDeviations))]
		if a.CorruptP > 0 && e.Ch.Bool("dkg.deviation.corrupt", a.CorruptP) {
			st.Deviation = "r2_corrupt_share" // bad shares are the deviation the complaint machinery exists for
		}
		if size > 1 {
			st.Target = 1 + uint64(e.Ch.Intn("dkg.target", int(size)))
			// several deviators of one group often pick the same victim: one recipient then has to complain about several dealers
			// in a single message
			if a.victims == nil {
				a.victims = map[uint64]uint64{}
			}
			if v, ok := a.victims[gid]; ok && e.Ch.Bool("dkg.target.shared", 600) {
				st.Target = v
			} else if !ok {
				a.victims[gid] = st.Target
			}
			if st.Target == mid {
				st.Target = mid%size + 1
			}
		}
		e.St.Fault("dkg_" + st.Deviation)
	}
	for r := 1; r <= 3; r++ {
		switch {
		case !e.Draining && a.SilentP > 0 && e.Ch.Bool("dkg.silent", a.SilentP):
			st.Delay[r] = -1
			e.St.Fault(fmt.Sprintf("dkg_silent_round%d", r))
		default:
			st.Delay[r] = e.Ch.Weighted("dkg.delay", []int{70, 15, 10, 5})
		}
	}
	a.States[k] = st
	return st
}

func (a *DKGActor) Act(e *Env) {
	ctx := e.Ctx()
	tk := e.App().TSSKeeper
	h := e.W.Height + 1
	count := tk.GetGroupCount(ctx)
	if a.firstOpen == 0 {
		a.firstOpen = 1
	}
	allClosed := true
	for gid := a.firstOpen; gid <= count; gid++ {
		g, err := tk.GetGroup(ctx, tss.GroupID(gid))
		if err != nil {
			continue
		}
		var round int
		switch g.Status {
		case tsstypes.GROUP_STATUS_ROUND_1:
			round = 1
		case tsstypes.GROUP_STATUS_ROUND_2:
			round = 2
		case tsstypes.GROUP_STATUS_ROUND_3:
			round = 3
		default:
			if allClosed {
				a.firstOpen = gid + 1
			}
			continue
		}
		allClosed = false
		members, err := tk.GetGroupMembers(ctx, tss.GroupID(gid))
		if err != nil {
			continue
		}
		for _, cm := range members {
			m := a.Pool.ByAddr[cm.Address]
			if m == nil {
				continue
			}
			st := a.state(e, gid, m, uint64(cm.ID), g.Size_)
			if st.Sent[round] {
				continue
			}
			if st.Seen[round] == 0 {
				st.Seen[round] = h
			}
			d := st.Delay[round]
			if e.Draining && d < 0 {
				d = 0
			}
			if d < 0 || h < st.Seen[round]+int64(d) {
				continue
			}
			st.Sent[round] = true
			switch round {
			case 1:
				a.round1(e, m, st, g)
			case 2:
				a.round2(e, m, st, g)
			case 3:
				a.round3(e, m, st, g)
			}
		}
		// a stranger tries to take part
		if !e.Draining && a.NonMemberP > 0 && round == 1 && e.Ch.Bool("dkg.nonmember", a.NonMemberP) {
			stranger := e.W.Users[len(e.W.Users)-1]
			dkgCtx, _ := tk.GetDKGContext(ctx, tss.GroupID(gid))
			r1, err := tss.GenerateRound1Info(1, g.Threshold, dkgCtx)
			if err == nil {
				info := tsstypes.Round1Info{MemberID: 1, CoefficientCommits: r1.CoefficientCommits, OneTimePubKey: r1.OneTimePubKey, A0Signature: r1.A0Signature, OneTimeSignature: r1.OneTimeSignature}
				e.St.Fault("dkg_non_member_sender")
				e.Submit(stranger, "dkg_round1", &dkgMeta{Round: 1, Kind: "non_member_sender", R1: &info, State: &dkgState{GroupID: gid, MemberID: 1, Deviation: "non_member"}},
					tsstypes.NewMsgSubmitDKGRound1(tss.GroupID(gid), info, stranger.Addr.String()))
			}
		}
	}
}

func (a *DKGActor) round1(e *Env, m *TSSMember, st *dkgState, g tsstypes.Group) {
	ctx := e.Ctx()
	tk := e.App().TSSKeeper
	dkgCtx, err := tk.GetDKGContext(ctx, g.ID)
	if err != nil {
		return
	}
	r1, err := tss.GenerateRound1Info(tss.MemberID(st.MemberID), g.Threshold, dkgCtx)
	if err != nil {
		panic(err)
	}
	st.R1 = r1
	if err := m.Store.SetDKG(cylstore.DKG{GroupID: g.ID, MemberID: tss.MemberID(st.MemberID), Coefficients: r1.Coefficients, OneTimePrivKey: r1.OneTimePrivKey}); err != nil {
		panic(err)
	}
	info := tsstypes.Round1Info{MemberID: tss.MemberID(st.MemberID), CoefficientCommits: r1.CoefficientCommits, OneTimePubKey: r1.OneTimePubKey,
		A0Signature: r1.A0Signature, OneTimeSignature: r1.OneTimeSignature}
	honest := true
	kind := "honest"
	switch st.Deviation {
	case "r1_bad_a0sig":
		sig := append(tss.Signature{}, info.A0Signature...)
		sig[len(sig)-1] ^= 1
		info.A0Signature = sig
		honest, kind = false, st.Deviation
	case "r1_wrong_len_commits":
		if e.Ch.Bool("dkg.r1.len", 500) || len(info.CoefficientCommits) == 1 {
			info.CoefficientCommits = append(append(tss.Points{}, info.CoefficientCommits...), info.CoefficientCommits[0])
		} else {
			info.CoefficientCommits = info.CoefficientCommits[:len(info.CoefficientCommits)-1]
		}
		honest, kind = false, st.Deviation
	case "r1_other_member_id":
		if st.Target != 0 {
			info.MemberID = tss.MemberID(st.Target)
			honest, kind = false, st.Deviation
		}
	}
	msg := tsstypes.NewMsgSubmitDKGRound1(g.ID, info, m.Acc.Addr.String())
	e.Submit(m.Acc, "dkg_round1", &dkgMeta{Member: m, State: st, Round: 1, Kind: kind, R1: &info, Honest: honest}, msg)
	if st.Deviation == "dup_r1" {
		e.Submit(m.Acc, "dkg_round1", &dkgMeta{Member: m, State: st, Round: 1, Kind: "dup_r1", R1: &info}, tsstypes.NewMsgSubmitDKGRound1(g.ID, info, m.Acc.Addr.String()))
	}
}

func (a *DKGActor) round2(e *Env, m *TSSMember, st *dkgState, g tsstypes.Group) {
	ctx := e.Ctx()
	tk := e.App().TSSKeeper
	dkg, err := m.Store.GetDKG(g.ID)
	if err != nil {
		return // never got round 1 in
	}
	infos := tk.GetRound1Infos(ctx, g.ID)
	oneTime := make(tss.Points, g.Size_)
	for _, d := range infos {
		oneTime[d.MemberID-1] = d.OneTimePubKey
	}
	enc, err := tss.ComputeEncryptedSecretShares(dkg.MemberID, dkg.OneTimePrivKey, oneTime, dkg.Coefficients, tss.DefaultNonce16Generator{})
	if err != nil {
		e.St.Probe("dkg_round2_compute_error")
		return
	}
	honest, kind := true, "honest"
	switch st.Deviation {
	case "r2_corrupt_share":
		if st.Target != 0 && len(enc) > 0 {
			slot := tsstypes.FindMemberSlot(tss.MemberID(st.MemberID), tss.MemberID(st.Target))
			c := enc[slot].Clone()
			c[e.Ch.Intn("dkg.r2.flip", 32)] ^= 0x40
			enc[slot] = c
			honest, kind = false, st.Deviation
		}
	case "r2_share_out_of_range":
		// under the correct symmetric key the dealer encrypts 32 bytes that are not a share at all: zero, the group order, or
		// all ones (not a canonical scalar). The recipient must still be able to prove the dealer wrong.
		if st.Target != 0 && len(enc) > 0 {
			slot := tsstypes.FindMemberSlot(tss.MemberID(st.MemberID), tss.MemberID(st.Target))
			plain := make([]byte, 32)
			switch e.Ch.Intn("dkg.r2.range", 3) {
			case 1:
				for i := range plain {
					plain[i] = 0xff
				}
			case 2:
				copy(plain, secp256k1OrderBytes)
			}
			if keySym, err := tss.ComputeSecretSym(dkg.OneTimePrivKey, oneTime[st.Target-1]); err == nil {
				if c, err := tss.Encrypt(tss.Scalar(plain), keySym, tss.DefaultNonce16Generator{}); err == nil {
					enc[slot] = c
					honest, kind = false, st.Deviation
					e.St.Fault("dkg_share_plaintext_outside_the_scalar_range")
				}
			}
		}
	case "r2_share_for_other":
		// the share evaluated for another index is sent to the target
		if st.Target != 0 && g.Size_ > 2 {
			other := st.Target%g.Size_ + 1
			if other == st.MemberID {
				other = other%g.Size_ + 1
			}
			if other != st.Target {
				s1 := tsstypes.FindMemberSlot(tss.MemberID(st.MemberID), tss.MemberID(st.Target))
				share, err1 := tss.ComputeSecretShare(dkg.Coefficients, tss.MemberID(other))
				keySym, err2 := tss.ComputeSecretSym(dkg.OneTimePrivKey, oneTime[st.Target-1])
				if err1 == nil && err2 == nil {
					if c, err := tss.Encrypt(share, keySym, tss.DefaultNonce16Generator{}); err == nil {
						enc[s1] = c
						honest, kind = false, st.Deviation
					}
				}
			}
		}
	case "r2_short_share":
		// one ciphertext of the list, at any position, is a byte short: the whole message is malformed
		if len(enc) > 0 {
			i := e.Ch.Intn("dkg.r2.short.slot", len(enc))
			enc[i] = append(tss.EncSecretShare{}, enc[i][:len(enc[i])-1]...)
			honest, kind = false, st.Deviation
		}
	case "r2_wrong_count":
		if len(enc) > 0 {
			enc = enc[:len(enc)-1]
		} else {
			enc = append(enc, make(tss.EncSecretShare, 48))
		}
		honest, kind = false, st.Deviation
	}
	info := tsstypes.Round2Info{MemberID: dkg.MemberID, EncryptedSecretShares: enc}
	e.Submit(m.Acc, "dkg_round2", &dkgMeta{Member: m, State: st, Round: 2, Kind: kind, R2: &info, Honest: honest}, tsstypes.NewMsgSubmitDKGRound2(g.ID, info, m.Acc.Addr.String()))
	if st.Deviation == "dup_r2" {
		e.Submit(m.Acc, "dkg_round2", &dkgMeta{Member: m, State: st, Round: 2, Kind: "dup_r2", R2: &info}, tsstypes.NewMsgSubmitDKGRound2(g.ID, info, m.Acc.Addr.String()))
	}
}

func (a *DKGActor) round3(e *Env, m *TSSMember, st *dkgState, g tsstypes.Group) {
	ctx := e.Ctx()
	tk := e.App().TSSKeeper
	dkg, err := m.Store.GetDKG(g.ID)
	if err != nil {
		return
	}
	res, err := tk.GetGroupResponse(ctx, g.ID)
	if err != nil {
		return
	}
	groupRes := &cylclient.GroupResult{GroupResult: *res}
	// the real cylinder helper decides between confirming and complaining
	priv, complaints, err := cylgroup.GetOwnPrivKeyForVerif(dkg, groupRes)
	addr := m.Acc.Addr.String()
	if err != nil {
		e.St.Probe("dkg_round3_helper_error")
		// the member's own software cannot process what it was dealt. A share it cannot even decrypt is a bad share: it
		// complains (with the library's own complaint routine) about every dealer known to have mis-dealt to it.
		var cs []tsstypes.Complaint
		r1me, err1 := groupRes.GetRound1Info(tss.MemberID(st.MemberID))
		for _, k := range core.SortedKeys(a.States) {
			o := a.States[k]
			if o.GroupID != st.GroupID || o.MemberID == st.MemberID || o.Target != st.MemberID || !strings.HasPrefix(o.Deviation, "r2_") || err1 != nil {
				continue
			}
			if r1o, err2 := groupRes.GetRound1Info(tss.MemberID(o.MemberID)); err2 == nil {
				if sig, keySym, err3 := tss.SignComplaint(r1me.OneTimePubKey, r1o.OneTimePubKey, dkg.OneTimePrivKey); err3 == nil {
					cs = append(cs, tsstypes.Complaint{Complainant: tss.MemberID(st.MemberID), Respondent: tss.MemberID(o.MemberID), KeySym: keySym, Signature: sig})
				}
			}
		}
		if len(cs) > 0 {
			st.Complained = cs
			e.Submit(m.Acc, "dkg_complain", &dkgMeta{Member: m, State: st, Round: 3, Kind: "honest_complaint", Complaints: cs, Honest: st.Deviation == ""}, tsstypes.NewMsgComplain(g.ID, cs, addr))
		}
		return
	}
	if st.Deviation == "r3_forged_complainant" && st.Target != 0 && st.Target != st.MemberID {
		// a complaint filed in ANOTHER member's name (well-formed key and signature that cannot verify for that member)
		r1me, err1 := groupRes.GetRound1Info(tss.MemberID(st.MemberID))
		r1other, err2 := groupRes.GetRound1Info(tss.MemberID(st.Target))
		if err1 == nil && err2 == nil {
			if sig, keySym, err := tss.SignComplaint(r1me.OneTimePubKey, r1other.OneTimePubKey, dkg.OneTimePrivKey); err == nil {
				cs := []tsstypes.Complaint{{Complainant: tss.MemberID(st.Target), Respondent: tss.MemberID(st.MemberID), KeySym: keySym, Signature: sig}}
				e.Submit(m.Acc, "dkg_complain", &dkgMeta{Member: m, State: st, Round: 3, Kind: st.Deviation, Complaints: cs}, tsstypes.NewMsgComplain(g.ID, cs, addr))
			}
		}
		// ... and then the member's own honest round-3 message follows below
	}
	if st.Deviation == "r3_false_complaint_noncanonical_keysym" && st.Target != 0 && len(complaints) == 0 {
		// a FALSE complaint (the dealer's share is correct) whose proof is valid for the true symmetric key, but the key is sent in
		// its 65-byte uncompressed encoding - the same curve point, different bytes
		r1me, err1 := groupRes.GetRound1Info(tss.MemberID(st.MemberID))
		r1other, err2 := groupRes.GetRound1Info(tss.MemberID(st.Target))
		if err1 == nil && err2 == nil {
			if cs, ok := complaintWithUncompressedKeySym(r1me.OneTimePubKey, r1other.OneTimePubKey, dkg.OneTimePrivKey, st.MemberID, st.Target); ok {
				e.Submit(m.Acc, "dkg_complain", &dkgMeta{Member: m, State: st, Round: 3, Kind: st.Deviation, Complaints: cs}, tsstypes.NewMsgComplain(g.ID, cs, addr))
				return
			}
		}
	}
	switch st.Deviation {
	case "r3_false_complaint", "r3_bad_keysym", "r3_complain_self":
		if st.Target != 0 && len(complaints) == 0 {
			resp := st.Target
			if st.Deviation == "r3_complain_self" {
				resp = st.MemberID
			}
			r1me, err1 := groupRes.GetRound1Info(tss.MemberID(st.MemberID))
			r1other, err2 := groupRes.GetRound1Info(tss.MemberID(st.Target))
			if err1 == nil && err2 == nil {
				sig, keySym, err := tss.SignComplaint(r1me.OneTimePubKey, r1other.OneTimePubKey, dkg.OneTimePrivKey)
				if err == nil {
					if st.Deviation == "r3_bad_keysym" {
						keySym = r1other.OneTimePubKey
					}
					cs := []tsstypes.Complaint{{Complainant: tss.MemberID(st.MemberID), Respondent: tss.MemberID(resp), KeySym: keySym, Signature: sig}}
					e.Submit(m.Acc, "dkg_complain", &dkgMeta{Member: m, State: st, Round: 3, Kind: st.Deviation, Complaints: cs}, tsstypes.NewMsgComplain(g.ID, cs, addr))
					return
				}
			}
		}
	}
	if len(complaints) > 0 {
		st.Complained = complaints
		e.Submit(m.Acc, "dkg_complain", &dkgMeta{Member: m, State: st, Round: 3, Kind: "honest_complaint", Complaints: complaints, Honest: st.Deviation == ""},
			tsstypes.NewMsgComplain(g.ID, complaints, addr))
		return
	}
	st.PrivShare = priv
	if err := m.Store.SetGroup(cylstore.Group{GroupPubKey: g.PubKey, MemberID: dkg.MemberID, PrivKey: priv}); err != nil {
		panic(err)
	}
	sig, err := tss.SignOwnPubKey(dkg.MemberID, res.DKGContext, priv.Point(), priv)
	if err != nil {
		return
	}
	honest, kind := st.Deviation == "", "honest"
	if st.Deviation == "r3_bad_confirm_sig" {
		s2 := append(tss.Signature{}, sig...)
		s2[len(s2)-1] ^= 1
		sig = s2
		kind = st.Deviation
	}
	e.Submit(m.Acc, "dkg_confirm", &dkgMeta{Member: m, State: st, Round: 3, Kind: kind, Confirm: true, Honest: honest}, tsstypes.NewMsgConfirm(g.ID, dkg.MemberID, sig, addr))
	if st.Deviation == "dup_r3" {
		// the same (valid) confirmation once more, possibly several times: a member acts at most once in round 3
		for i := 0; i < 1+e.Ch.Intn("dkg.dup_r3.n", 3); i++ {
			e.Submit(m.Acc, "dkg_confirm", &dkgMeta{Member: m, State: st, Round: 3, Kind: "dup_r3", Confirm: true}, tsstypes.NewMsgConfirm(g.ID, dkg.MemberID, sig, addr))
		}
	}
}

// ---------------------------------------------------------------------------------------------
// Transition driver: governance proposals that replace the signing group.

type transMeta struct {
	Msg      *bandtsstypes.MsgTransitionGroup
	Force    *bandtsstypes.MsgForceTransitionGroup
	Members  []*TSSMember
	ExecTime time.Time
}

type TransitionDriver struct {
	Pool     *TSSPool
	Rate     int // permille per step to start a proposal when none is pending
	ForceP   int
	MaxSize  int
	pending  *GovProp
	Started  int
	OverlapP int
}

func (t *TransitionDriver) OnBlock(e *Env, blk *world.BlockRecord) {
	if t.pending != nil && t.pending.Result != "" {
		t.pending = nil
	}
}

func (t *TransitionDriver) Act(e *Env) {
	if e.Draining {
		return
	}
	if t.pending != nil && !e.Ch.Bool("trans.overlap", t.OverlapP) {
		return
	}
	if !e.Ch.Bool("trans.start", t.Rate) {
		return
	}
	ctx := e.Ctx()
	bk := e.App().BandtssKeeper
	tk := e.App().TSSKeeper
	bp := bk.GetParams(ctx)
	gov := getGov(e)
	// exec time relative to the expected execution of the proposal (voting period ~4s after submission)
	base := e.W.Time.Add(6 * time.Second)
	var off time.Duration
	switch e.Ch.Weighted("trans.exec", []int{50, 15, 10, 15, 10}) {
	case 0:
		off = bp.MinTransitionDuration + time.Duration(5+e.Ch.Intn("trans.exec.n", 40))*time.Second
	case 1:
		off = bp.MinTransitionDuration + time.Second
	case 2:
		off = bp.MinTransitionDuration - 3*time.Second // likely too early -> rejected
	case 3:
		off = bp.MinTransitionDuration + time.Duration(60+e.Ch.Intn("trans.exec.long", 200))*time.Second
	case 4:
		off = bp.MaxTransitionDuration + 20*time.Second // too late -> rejected
	}
	exec := base.Add(off).Truncate(time.Second)
	if e.Ch.Bool("trans.exec.subsecond", 400) {
		// execution times need not be whole seconds; blocks can fall into the same second before or after them
		exec = exec.Add(time.Duration(1+e.Ch.Intn("trans.exec.nanos", 999)) * time.Millisecond)
	}
	if e.Ch.Bool("trans.force", t.ForceP) {
		// force transition to some ACTIVE group other than the current one
		cur := bk.GetCurrentGroup(ctx).GroupID
		var cands []tss.GroupID
		for _, g := range tk.GetGroups(ctx) {
			if g.Status == tsstypes.GROUP_STATUS_ACTIVE && g.ID != cur {
				cands = append(cands, g.ID)
			}
		}
		gid := tss.GroupID(1 + e.Ch.Intn("trans.force.any", int(tk.GetGroupCount(ctx))+1))
		if len(cands) > 0 && e.Ch.Bool("trans.force.valid", 800) {
			gid = cands[e.Ch.Intn("trans.force.gid", len(cands))]
		}
		msg := bandtsstypes.NewMsgForceTransitionGroup(gid, exec, govAuthority)
		t.pending = gov.Propose(e, "force_transition", &transMeta{Force: msg, ExecTime: exec}, msg)
		t.Started++
		return
	}
	size := 1 + e.Ch.Intn("trans.size", t.MaxSize)
	perm := e.Ch.Perm("trans.members", len(t.Pool.Members))
	var ms []*TSSMember
	var addrs []string
	for _, i := range perm[:size] {
		ms = append(ms, t.Pool.Members[i])
		addrs = append(addrs, t.Pool.Members[i].Acc.Addr.String())
	}
	thr := uint64(1 + e.Ch.Intn("trans.threshold", size))
	msg := bandtsstypes.NewMsgTransitionGroup(addrs, thr, exec, govAuthority)
	t.pending = gov.Propose(e, "transition", &transMeta{Msg: msg, Members: ms, ExecTime: exec}, msg)
	t.Started++
}

// complaintWithUncompressedKeySym builds a complaint of member `me` against `other` with a valid discrete-log-equality proof for
// the true symmetric key, carried in uncompressed form (the proof's challenge is computed over those bytes).
func complaintWithUncompressedKeySym(pubMe, pubOther tss.Point, privMe tss.Scalar, me, other uint64) ([]tsstypes.Complaint, bool) {
	keySym, err := tss.ComputeSecretSym(privMe, pubOther)
	if err != nil {
		return nil, false
	}
	pk, err := secp256k1.ParsePubKey(keySym)
	if err != nil {
		return nil, false
	}
	keySymU := tss.Point(pk.SerializeUncompressed())
	for i := 0; i < 8; i++ {
		nonce, pubNonce, err := tss.GenerateDKGNonce()
		if err != nil {
			return nil, false
		}
		nonceSym, err := tss.ComputeSecretSym(nonce, pubOther)
		if err != nil {
			return nil, false
		}
		challenge, err := tss.HashRound3Complain(pubNonce, nonceSym, pubMe, pubOther, keySymU)
		if err != nil {
			continue
		}
		sig, err := tss.Sign(privMe, challenge, nonce, nil)
		if err != nil {
			return nil, false
		}
		cs, err := tss.NewComplaintSignatureFromComponents(sig.R(), nonceSym, sig.S())
		if err != nil {
			return nil, false
		}
		return []tsstypes.Complaint{{Complainant: tss.MemberID(me), Respondent: tss.MemberID(other), KeySym: keySymU, Signature: cs}}, true
	}
	return nil, false
}
