package chainsim

import (
	"verifsim/world"
)

// C13Tunnel — the fee clause of C13 on the tunnel route: a packet sent over the TSS route pays the signing fee
// (fee per signer x threshold) out of the tunnel's fee payer together with the base fee, exactly once per produced packet,
// and a packet whose production fails moves nothing at all (no fee stays in the signing escrow or the tunnel module).
// The ledger of fee payers and depositors is the one the tunnel reference model keeps.
type C13Tunnel struct {
	nPaid, nFailed int
}

func (m *C13Tunnel) Prop() string { return "C13" }

func (m *C13Tunnel) OnBlock(e *Env, blk *world.BlockRecord) {
	ts := getTunnelShadow(e)
	ts.Advance(e, blk)
	for _, jp := range ts.JPackets {
		switch jp.Outcome {
		case "success":
			if jp.T.IsTSS && !jp.RouteFee.IsZero() {
				m.nPaid++
				e.St.Trace("tunnel-signing-fee-paid")
			}
		case "fail":
			if jp.T.IsTSS {
				m.nFailed++
				e.St.Trace("tunnel-send-failed")
			}
		}
	}
	if d, ok := ts.L.Compare(e); !ok {
		e.Fail("C13", "tunnel_signing_fee_ledger", "", "%s at height %d (base and signing fees leave the fee payer exactly once per produced packet and not at all when production fails)", d, blk.Height)
	}
}

func (m *C13Tunnel) Pending(e *Env) bool { return false }
func (m *C13Tunnel) Finish(e *Env) {
	e.St.ProbeN("c13_tunnel_packets_with_signing_fee", m.nPaid)
	e.St.ProbeN("c13_tunnel_failed_sends", m.nFailed)
}
func (m *C13Tunnel) NonTrivial(e *Env) bool { return m.nPaid > 0 && m.nFailed > 0 }
