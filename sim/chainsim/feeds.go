package chainsim

import (
	"os"
	stakingtypes "github.com/cosmos/cosmos-sdk/x/staking/types"
	"sort"
	"fmt"
	"time"

	sdk "github.com/cosmos/cosmos-sdk/types"

	band "github.com/bandprotocol/chain/v3/app"
	feedstypes "github.com/bandprotocol/chain/v3/x/feeds/types"
	restaketypes "github.com/bandprotocol/chain/v3/x/restake/types"

	"verifsim/world"
)

type feederMeta struct {
	Msg  *feedstypes.MsgSubmitSignalPrices
	Val  *world.Validator
	Kind string
}

func feedsGenesis(p feedstypes.Params, allowed []string) func(w *world.World, gs band.GenesisState) {
	return func(w *world.World, gs band.GenesisState) {
		cdc := w.Replicas[0].App.AppCodec()
		g := feedstypes.DefaultGenesisState()
		g.Params = p
		gs[feedstypes.ModuleName] = cdc.MustMarshalJSON(g)
		var rg restaketypes.GenesisState
		cdc.MustUnmarshalJSON(gs[restaketypes.ModuleName], &rg)
		rg.Params.AllowedDenoms = allowed
		gs[restaketypes.ModuleName] = cdc.MustMarshalJSON(&rg)
	}
}

func drawFeedsParams(e *Env) feedstypes.Params {
	p := feedstypes.DefaultParams()
	p.Admin = world.NewAccount(1, "feeds-admin").Addr.String()
	p.AllowableBlockTimeDiscrepancy = int64(e.Ch.Range("cfg.feeds.discrepancy", 5, 60))
	p.GracePeriod = int64(e.Ch.Range("cfg.feeds.grace", 3, 30))
	p.MinInterval = int64(e.Ch.Range("cfg.feeds.minint", 5, 30))
	p.MaxInterval = p.MinInterval + int64(e.Ch.Range("cfg.feeds.maxint", 10, 120))
	p.PowerStepThreshold = int64(e.Ch.Range("cfg.feeds.step", 200, 3000))
	p.MaxCurrentFeeds = uint64(e.Ch.Range("cfg.feeds.maxfeeds", 1, 6))
	p.CooldownTime = int64(e.Ch.Range("cfg.feeds.cooldown", 1, 10))
	p.CurrentFeedsUpdateInterval = int64(e.Ch.Range("cfg.feeds.updint", 1, 20))
	p.PriceQuorum = []string{"0.3", "0", "1", "0.5", "0.05", "0.667"}[e.Ch.Intn("cfg.feeds.quorum", 6)]
	return p
}

// FeederActor: validators submit signal prices.
type FeederActor struct {
	planSig    string
	planStatus map[string]feedstypes.SignalPriceStatus
	planLeft   int
	Bystander  *world.Account // an account no model tracks; may delegate to validators to set up exact power splits
	PushOver   int            // index+1 semantics are avoided: -1 = none; else the validator the bystander pushes past 2^63 tokens at step 8
	forcePlan  bool
	hold       map[string]int
	jumpNext   map[string]bool
	jumpWait   map[string]int
	lastSent map[string]int64 // validator -> unix time of last accepted-looking submission
	price    map[string]uint64
	Lazy     map[string]int // validator -> permille of skipping a due submission
	ByzP     int
	SkewP    int
}

func (a *FeederActor) OnBlock(e *Env, blk *world.BlockRecord) {}

// stepMarket moves the common market price of every current feed once per step. When tunnels exist, moves are aimed at
// their deviation thresholds (soft-1, soft, hard-1, hard, hard+1 basis points away from the last price they sent).
func (a *FeederActor) stepMarket(e *Env, feeds []feedstypes.Feed) {
	if a.price == nil {
		a.price = map[string]uint64{}
	}
	var ts *TunnelShadow
	if x, ok := e.Shared["tunnel.shadow"].(*TunnelShadow); ok {
		ts = x
	}
	// coordinated move: one signal of a tunnel crosses its hard deviation while its siblings sit around their soft deviations
	// (the packet must then carry exactly the hard one plus the siblings at or above soft)
	coordinated := map[string]bool{}
	if ts != nil && e.Ch.Bool("feeder.price.coordinated", 150) {
		var ids []uint64
		for _, id := range ts.sortedIDs() {
			n := 0
			for _, sd := range ts.Tunnels[id].Signals {
				lp, has := ts.Tunnels[id].Latest[sd.SignalID]
				if _, known := a.price[sd.SignalID]; known && has && lp.Price != 0 && lp.Price <= 1<<50 {
					n++
				}
			}
			if n >= 2 && ts.Tunnels[id].Active {
				ids = append(ids, id)
			}
		}
		if len(ids) > 0 {
			t := ts.Tunnels[ids[e.Ch.Intn("feeder.price.coord.tunnel", len(ids))]]
			// which of the tunnel's signals crosses its hard deviation: any position in the tunnel's signal list
			var elig []int
			for i, sd := range t.Signals {
				lp, has := t.Latest[sd.SignalID]
				if _, known := a.price[sd.SignalID]; known && has && lp.Price != 0 && lp.Price <= 1<<50 {
					elig = append(elig, i)
				}
			}
			hardIdx := -1
			if len(elig) > 0 {
				hardIdx = elig[e.Ch.Intn("feeder.price.coord.which", len(elig))]
			}
			for i, sd := range t.Signals {
				lp, has := t.Latest[sd.SignalID]
				if _, known := a.price[sd.SignalID]; !known || !has || lp.Price == 0 || lp.Price > 1<<50 {
					continue
				}
				var bps uint64
				if i == hardIdx {
					bps = sd.HardDeviationBPS + uint64(e.Ch.Intn("feeder.price.coord.hard", 2))
				} else {
					bps = []uint64{sd.SoftDeviationBPS, sd.SoftDeviationBPS + 1, sd.SoftDeviationBPS - 1, 0}[e.Ch.Intn("feeder.price.coord.soft", 4)]
				}
				delta := (lp.Price*bps + 9999) / 10000
				if bps == 0 {
					delta = 0
				}
				a.price[sd.SignalID] = lp.Price + delta
				coordinated[sd.SignalID] = true
			}
			if len(coordinated) > 1 {
				e.St.Probe("coordinated_hard_plus_soft_price_move")
			}
		}
	}
	for _, f := range feeds {
		sig := f.SignalID
		if coordinated[sig] {
			continue
		}
		p, ok := a.price[sig]
		if !ok {
			p = uint64(10000 * (1 + e.Ch.Intn("feeder.price.init", 500)))
			a.price[sig] = p
			continue
		}
		if a.hold[sig] > 0 {
			a.hold[sig]-- // a boundary price stays long enough to become the feed price and be signed
			continue
		}
		if a.jumpNext[sig] && ts != nil && a.jumpWait[sig] < 25 {
			// wait (bounded) until some active tunnel has actually sent the tiny price: only then is it the "old" price of a deviation
			carried, sent := false, false
			for _, id := range ts.sortedIDs() {
				t := ts.Tunnels[id]
				if !t.Active {
					continue
				}
				for _, sd := range t.Signals {
					if sd.SignalID == sig {
						carried = true
						if lp, ok := t.Latest[sig]; ok && lp.Price == a.price[sig] {
							sent = true
						}
					}
				}
			}
			if carried && !sent {
				if a.jumpWait == nil {
					a.jumpWait = map[string]int{}
				}
				a.jumpWait[sig]++
				continue
			}
		}
		if a.jumpNext[sig] {
			delete(a.jumpWait, sig)
			// after a tiny price: the largest ratios two consecutive feed prices can have (deviation arithmetic in basis points
			// multiplies the difference by 10^4 and divides by the old price)
			delete(a.jumpNext, sig)
			a.price[sig] = []uint64{^uint64(0), 1 << 63, 1<<63 + 1, 1844674407370957, 1 << 60}[e.Ch.Intn("feeder.price.jump", 5)]
			a.hold[sig] = 2 + e.Ch.Intn("feeder.price.jumphold", 4)
			e.St.Probe("price_jump_from_tiny_to_huge")
			continue
		}
		switch e.Ch.Weighted("feeder.price.move", []int{45, 12, 12, 25, 2, 2, 2, 4, 2}) {
		case 1:
			p += uint64(e.Ch.Intn("feeder.price.up", 500))
		case 2:
			d := uint64(e.Ch.Intn("feeder.price.down", 500))
			if d < p {
				p -= d
			}
		case 3:
			if ts != nil {
				// aim at a deviation threshold of some tunnel carrying this signal
				for _, id := range ts.sortedIDs() {
					t := ts.Tunnels[id]
					for _, sd := range t.Signals {
						lp, has := t.Latest[sig]
						if sd.SignalID != sig || !has || lp.Price == 0 || lp.Price > 1<<50 {
							continue
						}
						targets := []uint64{sd.SoftDeviationBPS, sd.HardDeviationBPS, sd.HardDeviationBPS + 1, sd.SoftDeviationBPS + 1, sd.HardDeviationBPS - 1, sd.SoftDeviationBPS - 1}
						bps := targets[e.Ch.Intn("feeder.price.aim", len(targets))]
						delta := (lp.Price*bps + 9999) / 10000
						if e.Ch.Bool("feeder.price.aimdown", 400) && delta < lp.Price {
							p = lp.Price - delta
						} else {
							p = lp.Price + delta
						}
					}
				}
			} else {
				p += p / 100
			}
		case 4:
			p = 0
		case 5:
			p = 1
		case 6:
			p = ^uint64(0)
		case 8:
			// tiny price, held until it has been published and sent, followed by a jump to a huge one
			p = uint64(1 + e.Ch.Intn("feeder.price.tiny", 9999))
			if e.Ch.Bool("feeder.price.tiny.one", 400) {
				p = 1
			}
			if a.hold == nil {
				a.hold = map[string]int{}
			}
			if a.jumpNext == nil {
				a.jumpNext = map[string]bool{}
			}
			a.hold[sig] = 3 + e.Ch.Intn("feeder.price.tinyhold", 8)
			a.jumpNext[sig] = true
		case 7:
			// power-of-two family: where bit-length based arithmetic (tick math, fixed-width encodings) changes regime
			k := 1 + e.Ch.Intn("feeder.price.pow2", 63)
			p = uint64(1) << uint(k)
			switch e.Ch.Intn("feeder.price.pow2off", 4) {
			case 1:
				p++
			case 2:
				p--
			case 3:
				if k > 16 {
					p += e.Ch.U64("feeder.price.pow2low") >> uint(64-(k-16))
				}
			}
			if a.hold == nil {
				a.hold = map[string]int{}
			}
			a.hold[sig] = 4 + e.Ch.Intn("feeder.price.pow2hold", 10)
			e.St.Probe("price_in_power_of_two_family")
		}
		a.price[sig] = p
	}
}

// stepStatusPlan occasionally fixes, for one signal and for a while, which validators report AVAILABLE and which do not, such
// that the available (or the unsupported) token power sits exactly at, one unit below or one unit above half of the total: the
// boundaries of the "at least half available / more than half unsupported" rules. Subsets are enumerated (<= 7 validators).
func (a *FeederActor) stepStatusPlan(e *Env, feeds []feedstypes.Feed) {
	if a.planLeft > 0 {
		a.planLeft--
		if a.planLeft == 0 {
			a.planSig, a.planStatus = "", nil
		}
		return
	}
	if e.Draining || len(feeds) == 0 || len(e.W.Vals) > 10 || (!a.forcePlan && !e.Ch.Bool("feeder.statusplan", 40)) {
		return
	}
	forced := a.forcePlan
	a.forcePlan = false
	ctx := e.Ctx()
	var keys []string
	var pow []uint64
	total := uint64(0)
	for _, v := range e.W.Vals {
		val, err := e.App().StakingKeeper.GetValidator(ctx, v.Val)
		if err != nil || !val.IsBonded() || !e.App().OracleKeeper.GetValidatorStatus(ctx, v.Val).IsActive {
			continue
		}
		t := val.GetTokens().Uint64()
		if t > 1<<61 {
			return
		}
		keys = append(keys, v.Val.String())
		pow = append(pow, t)
		total += t
	}
	if len(keys) < 2 {
		return
	}
	type cand struct {
		mask int
		dist uint64
	}
	var best []cand
	for mask := 1; mask < 1<<len(keys)-1; mask++ {
		var sum uint64
		for i := range keys {
			if mask&(1<<i) != 0 {
				sum += pow[i]
			}
		}
		d := 2*sum - total
		if 2*sum < total {
			d = total - 2*sum
		}
		best = append(best, cand{mask, d})
	}
	sort.SliceStable(best, func(i, j int) bool { return best[i].dist < best[j].dist })
	if len(best) > 4 {
		best = best[:4]
	}
	if best[0].dist > 1 && !forced && a.Bystander != nil && e.Ch.Bool("feeder.statusplan.balance", 600) {
		// no subset sits at half: a bystander delegates exactly the difference (+-1) to one validator of the closest subset,
		// and the plan is made once that delegation is in
		mask := best[0].mask
		var sum uint64
		for i := range keys {
			if mask&(1<<i) != 0 {
				sum += pow[i]
			}
		}
		if 2*sum > total {
			mask, sum = (1<<len(keys)-1)&^mask, total-sum
		}
		delta := int64(total-2*sum) + int64(e.Ch.Intn("feeder.statusplan.balance.off", 3)) - 1
		if delta >= 1 && delta < 500_000_000_000 {
			for i := range keys {
				if mask&(1<<i) != 0 {
					u := a.Bystander
					e.Submit(u, "balance_delegate", nil, stakingtypes.NewMsgDelegate(u.Addr.String(), keys[i], sdk.NewInt64Coin("uband", delta)))
					e.St.Probe("bystander_delegation_aimed_at_half_power")
					a.forcePlan, a.planLeft = true, 2
					return
				}
			}
		}
	}
	c := best[e.Ch.Intn("feeder.statusplan.pick", len(best))]
	other := []feedstypes.SignalPriceStatus{feedstypes.SIGNAL_PRICE_STATUS_UNAVAILABLE, feedstypes.SIGNAL_PRICE_STATUS_UNSUPPORTED}[e.Ch.Intn("feeder.statusplan.other", 2)]
	a.planSig = feeds[e.Ch.Intn("feeder.statusplan.sig", len(feeds))].SignalID
	a.planStatus = map[string]feedstypes.SignalPriceStatus{}
	for i, k := range keys {
		if c.mask&(1<<i) != 0 {
			a.planStatus[k] = feedstypes.SIGNAL_PRICE_STATUS_AVAILABLE
		} else {
			a.planStatus[k] = other
		}
	}
	a.planLeft = 6 + e.Ch.Intn("feeder.statusplan.life", 14)
	e.St.Probe(fmt.Sprintf("status_split_aimed_at_half_power(|2*available-total|=%s)", []string{"0", "1", "2", ">=3"}[min(c.dist, 3)]))
}

func (a *FeederActor) nextPrice(e *Env, sig string) uint64 {
	p := a.price[sig]
	if e.Ch.Bool("feeder.price.noise", 120) {
		p += uint64(e.Ch.Intn("feeder.price.noisen", 20))
	}
	return p
}

func (a *FeederActor) Act(e *Env) {
	if e.Step < 2 {
		return
	}
	ctx := e.Ctx()
	fk := e.App().FeedsKeeper
	cf := fk.GetCurrentFeeds(ctx)
	params := fk.GetParams(ctx)
	if a.lastSent == nil {
		a.lastSent = map[string]int64{}
	}
	next := e.W.Time.Add(time.Second).Unix()
	if os.Getenv("VERIF_DEBUG_FEEDS") != "" {
		e.Log.Add("feeds dbg: cur=%d lastupd=%d totals=%v threshold=%d updint=%d maxfeeds=%d", len(cf.Feeds), cf.LastUpdateBlock, fk.GetSignalTotalPowersByPower(ctx, 10), params.PowerStepThreshold, params.CurrentFeedsUpdateInterval, params.MaxCurrentFeeds)
	}
	if len(cf.Feeds) > 0 {
		e.St.Probe("steps_with_current_feeds")
	} else {
		e.St.Probe("steps_without_current_feeds")
	}
	if a.PushOver >= 0 && a.Bystander != nil && e.Step == 8 && a.PushOver < len(e.W.Vals) {
		v := e.W.Vals[a.PushOver]
		amt := int64(1_000_001 + e.Ch.Intn("feeder.pushover", 3)*1_000_000)
		e.Submit(a.Bystander, "balance_delegate", nil, stakingtypes.NewMsgDelegate(a.Bystander.Addr.String(), v.Val.String(), sdk.NewInt64Coin("uband", amt)))
		e.St.Probe("validator_tokens_pushed_past_2^63")
	}
	a.stepMarket(e, cf.Feeds)
	a.stepStatusPlan(e, cf.Feeds)
	for _, v := range e.W.Vals {
		key := v.Val.String()
		byz := !e.Draining && a.ByzP > 0 && e.Ch.Bool("feeder.byz", a.ByzP)
		if len(cf.Feeds) == 0 && !byz {
			continue
		}
		due := next >= a.lastSent[key]+params.CooldownTime
		if !byz {
			if !due || (!e.Draining && e.Ch.Bool("feeder.lazy", a.Lazy[key])) {
				continue
			}
			// honest feeders do not resubmit every second: spread over the shortest interval
			if !e.Draining && a.lastSent[key] != 0 && !e.Ch.Bool("feeder.now", 350) {
				continue
			}
		}
		var prices []feedstypes.SignalPrice
		kind := "honest"
		for _, f := range cf.Feeds {
			if !e.Draining && e.Ch.Bool("feeder.skip", 120) {
				continue
			}
			st := feedstypes.SIGNAL_PRICE_STATUS_AVAILABLE
			switch e.Ch.Weighted("feeder.status", []int{80, 10, 10}) {
			case 1:
				st = feedstypes.SIGNAL_PRICE_STATUS_UNAVAILABLE
			case 2:
				st = feedstypes.SIGNAL_PRICE_STATUS_UNSUPPORTED
			}
			if ps, ok := a.planStatus[key]; ok && f.SignalID == a.planSig {
				st = ps
			}
			if e.Draining {
				st = feedstypes.SIGNAL_PRICE_STATUS_AVAILABLE
			}
			p := uint64(0)
			if st == feedstypes.SIGNAL_PRICE_STATUS_AVAILABLE {
				p = a.nextPrice(e, f.SignalID)
			}
			prices = append(prices, feedstypes.SignalPrice{Status: st, SignalID: f.SignalID, Price: p})
		}
		ts := next
		if a.SkewP > 0 && e.Ch.Bool("feeder.skew", a.SkewP) {
			ts += int64(e.Ch.Range("feeder.skew.n", -70, 70))
			kind = "skewed_timestamp"
		}
		if byz {
			switch e.Ch.Intn("feeder.byz.kind", 4) {
			case 0:
				prices = append(prices, feedstypes.SignalPrice{Status: feedstypes.SIGNAL_PRICE_STATUS_AVAILABLE, SignalID: "NOTAFEED", Price: 5})
				kind = "non_current_signal"
			case 1:
				kind = "too_early"
			case 2:
				for i := 0; i < 8; i++ {
					prices = append(prices, feedstypes.SignalPrice{Status: feedstypes.SIGNAL_PRICE_STATUS_AVAILABLE, SignalID: fmt.Sprintf("X%d", i), Price: 1})
				}
				kind = "too_many"
			case 3:
				if len(prices) > 0 {
					prices[0].Status = feedstypes.SIGNAL_PRICE_STATUS_UNAVAILABLE
					prices[0].Price = 7
					kind = "price_with_unavailable"
				}
			}
			e.St.Fault("feeder_" + kind)
		}
		if len(prices) == 0 {
			continue
		}
		msg := feedstypes.NewMsgSubmitSignalPrices(key, ts, prices)
		e.Submit(v.Account, "submit_prices", &feederMeta{Msg: msg, Val: v, Kind: kind}, msg)
		a.lastSent[key] = next
	}
	_ = sdk.Coins{}
}

// FeedsParamChurn: governance moves the parameters that decide the current feed list -- the power threshold, the interval
// range and the maximum number of feeds -- while votes keep changing, including values at the edges of their types (1,
// min above max, 2^62, 2^63-1, no feeds at all, 2^64-1 feeds). Proposed only when the module's own validation accepts them.
type FeedsParamChurn struct{ Rate int }

func (p *FeedsParamChurn) OnBlock(e *Env, blk *world.BlockRecord) {}
func (p *FeedsParamChurn) Act(e *Env) {
	if e.Draining || e.Step < 4 || !e.Ch.Bool("feeds.paramchurn", p.Rate) {
		return
	}
	gov := getGov(e)
	if gov == nil {
		return
	}
	np := e.App().FeedsKeeper.GetParams(e.Ctx())
	switch e.Ch.Intn("feeds.paramchurn.what", 4) {
	case 0:
		np.PowerStepThreshold = []int64{1, 2, int64(200 + e.Ch.Intn("feeds.paramchurn.step", 3000)), 1 << 62, 1<<63 - 1}[e.Ch.Intn("feeds.paramchurn.stepk", 5)]
	case 1:
		np.MinInterval = []int64{1, int64(5 + e.Ch.Intn("feeds.paramchurn.min", 30)), 1 << 62, 1<<63 - 1}[e.Ch.Intn("feeds.paramchurn.mink", 4)]
	case 2:
		np.MaxInterval = []int64{1, int64(10 + e.Ch.Intn("feeds.paramchurn.max", 150)), 1 << 62, 1<<63 - 1}[e.Ch.Intn("feeds.paramchurn.maxk", 4)]
	case 3:
		np.MaxCurrentFeeds = []uint64{0, 1, 2, 5, 1 << 32, 1<<64 - 1}[e.Ch.Intn("feeds.paramchurn.maxfeeds", 6)]
	}
	if np.Validate() == nil {
		gov.Propose(e, "params_feeds", nil, &feedstypes.MsgUpdateParams{Authority: govAuthority, Params: np})
		e.St.Fault("feed_list_parameters_changed_by_governance")
	}
}

// FeedsBlackout: for a stretch of the run governance sets the feeds module's max_current_feeds to 0 -- the next feed-list
// update empties the list and the module holds no price at all -- and restores it later. Whatever consumes prices (tunnels,
// signature orders) must go on doing everything that does not need one.
type FeedsBlackout struct {
	At, Len int
	orig    uint64
	state   int
}

func (p *FeedsBlackout) OnBlock(e *Env, blk *world.BlockRecord) {}
func (p *FeedsBlackout) Act(e *Env) {
	gov := getGov(e)
	if gov == nil || e.Draining {
		return
	}
	np := e.App().FeedsKeeper.GetParams(e.Ctx())
	switch {
	case p.state == 0 && e.Step >= p.At:
		p.orig = np.MaxCurrentFeeds
		np.MaxCurrentFeeds = 0
		if np.Validate() == nil {
			gov.Propose(e, "params_feeds", nil, &feedstypes.MsgUpdateParams{Authority: govAuthority, Params: np})
			e.St.Fault("feeds_blackout_no_current_feeds")
		}
		p.state = 1
	case p.state == 1 && e.Step >= p.At+p.Len:
		np.MaxCurrentFeeds = p.orig
		if np.Validate() == nil {
			gov.Propose(e, "params_feeds", nil, &feedstypes.MsgUpdateParams{Authority: govAuthority, Params: np})
		}
		p.state = 2
	}
}
