package chainsim

import (
	"fmt"
	"time"

	sdk "github.com/cosmos/cosmos-sdk/types"

	band "github.com/bandprotocol/chain/v3/app"
	feedstypes "github.com/bandprotocol/chain/v3/x/feeds/types"
	restaketypes "github.com/bandprotocol/chain/v3/x/restake/types"

	"verifsim/world"
)

type feederMeta struct {
	Msg  *feedstypes.MsgSubmitSignalPrices
	Val  *world.Validator
	Kind string
}

func feedsGenesis(p feedstypes.Params, allowed []string) func(w *world.World, gs band.GenesisState) {
	return func(w *world.World, gs band.GenesisState) {
		cdc := w.Replicas[0].App.AppCodec()
		g := feedstypes.DefaultGenesisState()
		g.Params = p
		gs[feedstypes.ModuleName] = cdc.MustMarshalJSON(g)
		var rg restaketypes.GenesisState
		cdc.MustUnmarshalJSON(gs[restaketypes.ModuleName], &rg)
		rg.Params.AllowedDenoms = allowed
		gs[restaketypes.ModuleName] = cdc.MustMarshalJSON(&rg)
	}
}

func drawFeedsParams(e *Env) feedstypes.Params {
	p := feedstypes.DefaultParams()
	p.Admin = world.NewAccount(1, "feeds-admin").Addr.String()
	p.AllowableBlockTimeDiscrepancy = int64(e.Ch.Range("cfg.feeds.discrepancy", 5, 60))
	p.GracePeriod = int64(e.Ch.Range("cfg.feeds.grace", 3, 30))
	p.MinInterval = int64(e.Ch.Range("cfg.feeds.minint", 5, 30))
	p.MaxInterval = p.MinInterval + int64(e.Ch.Range("cfg.feeds.maxint", 10, 120))
	p.PowerStepThreshold = int64(e.Ch.Range("cfg.feeds.step", 200, 3000))
	p.MaxCurrentFeeds = uint64(e.Ch.Range("cfg.feeds.maxfeeds", 1, 6))
	p.CooldownTime = int64(e.Ch.Range("cfg.feeds.cooldown", 1, 10))
	p.CurrentFeedsUpdateInterval = int64(e.Ch.Range("cfg.feeds.updint", 1, 20))
	p.PriceQuorum = []string{"0.3", "0", "1", "0.5", "0.05", "0.667"}[e.Ch.Intn("cfg.feeds.quorum", 6)]
	return p
}

// FeederActor: validators submit signal prices.
type FeederActor struct {
	lastSent map[string]int64 // validator -> unix time of last accepted-looking submission
	price    map[string]uint64
	Lazy     map[string]int // validator -> permille of skipping a due submission
	ByzP     int
	SkewP    int
}

func (a *FeederActor) OnBlock(e *Env, blk *world.BlockRecord) {}

// stepMarket moves the common market price of every current feed once per step. When tunnels exist, moves are aimed at
// their deviation thresholds (soft-1, soft, hard-1, hard, hard+1 basis points away from the last price they sent).
func (a *FeederActor) stepMarket(e *Env, feeds []feedstypes.Feed) {
	if a.price == nil {
		a.price = map[string]uint64{}
	}
	var ts *TunnelShadow
	if x, ok := e.Shared["tunnel.shadow"].(*TunnelShadow); ok {
		ts = x
	}
	for _, f := range feeds {
		sig := f.SignalID
		p, ok := a.price[sig]
		if !ok {
			p = uint64(10000 * (1 + e.Ch.Intn("feeder.price.init", 500)))
			a.price[sig] = p
			continue
		}
		switch e.Ch.Weighted("feeder.price.move", []int{45, 12, 12, 25, 2, 2, 2}) {
		case 1:
			p += uint64(e.Ch.Intn("feeder.price.up", 500))
		case 2:
			d := uint64(e.Ch.Intn("feeder.price.down", 500))
			if d < p {
				p -= d
			}
		case 3:
			if ts != nil {
				// aim at a deviation threshold of some tunnel carrying this signal
				for _, id := range ts.sortedIDs() {
					t := ts.Tunnels[id]
					for _, sd := range t.Signals {
						lp, has := t.Latest[sig]
						if sd.SignalID != sig || !has || lp.Price == 0 || lp.Price > 1<<50 {
							continue
						}
						targets := []uint64{sd.SoftDeviationBPS, sd.HardDeviationBPS, sd.HardDeviationBPS + 1, sd.SoftDeviationBPS + 1, sd.HardDeviationBPS - 1, sd.SoftDeviationBPS - 1}
						bps := targets[e.Ch.Intn("feeder.price.aim", len(targets))]
						delta := (lp.Price*bps + 9999) / 10000
						if e.Ch.Bool("feeder.price.aimdown", 400) && delta < lp.Price {
							p = lp.Price - delta
						} else {
							p = lp.Price + delta
						}
					}
				}
			} else {
				p += p / 100
			}
		case 4:
			p = 0
		case 5:
			p = 1
		case 6:
			p = ^uint64(0)
		}
		a.price[sig] = p
	}
}

func (a *FeederActor) nextPrice(e *Env, sig string) uint64 {
	p := a.price[sig]
	if e.Ch.Bool("feeder.price.noise", 120) {
		p += uint64(e.Ch.Intn("feeder.price.noisen", 20))
	}
	return p
}

func (a *FeederActor) Act(e *Env) {
	if e.Step < 2 {
		return
	}
	ctx := e.Ctx()
	fk := e.App().FeedsKeeper
	cf := fk.GetCurrentFeeds(ctx)
	params := fk.GetParams(ctx)
	if a.lastSent == nil {
		a.lastSent = map[string]int64{}
	}
	next := e.W.Time.Add(time.Second).Unix()
	a.stepMarket(e, cf.Feeds)
	for _, v := range e.W.Vals {
		key := v.Val.String()
		byz := !e.Draining && a.ByzP > 0 && e.Ch.Bool("feeder.byz", a.ByzP)
		if len(cf.Feeds) == 0 && !byz {
			continue
		}
		due := next >= a.lastSent[key]+params.CooldownTime
		if !byz {
			if !due || (!e.Draining && e.Ch.Bool("feeder.lazy", a.Lazy[key])) {
				continue
			}
			// honest feeders do not resubmit every second: spread over the shortest interval
			if !e.Draining && a.lastSent[key] != 0 && !e.Ch.Bool("feeder.now", 350) {
				continue
			}
		}
		var prices []feedstypes.SignalPrice
		kind := "honest"
		for _, f := range cf.Feeds {
			if !e.Draining && e.Ch.Bool("feeder.skip", 120) {
				continue
			}
			st := feedstypes.SIGNAL_PRICE_STATUS_AVAILABLE
			switch e.Ch.Weighted("feeder.status", []int{80, 10, 10}) {
			case 1:
				st = feedstypes.SIGNAL_PRICE_STATUS_UNAVAILABLE
			case 2:
				st = feedstypes.SIGNAL_PRICE_STATUS_UNSUPPORTED
			}
			if e.Draining {
				st = feedstypes.SIGNAL_PRICE_STATUS_AVAILABLE
			}
			p := uint64(0)
			if st == feedstypes.SIGNAL_PRICE_STATUS_AVAILABLE {
				p = a.nextPrice(e, f.SignalID)
			}
			prices = append(prices, feedstypes.SignalPrice{Status: st, SignalID: f.SignalID, Price: p})
		}
		ts := next
		if a.SkewP > 0 && e.Ch.Bool("feeder.skew", a.SkewP) {
			ts += int64(e.Ch.Range("feeder.skew.n", -70, 70))
			kind = "skewed_timestamp"
		}
		if byz {
			switch e.Ch.Intn("feeder.byz.kind", 4) {
			case 0:
				prices = append(prices, feedstypes.SignalPrice{Status: feedstypes.SIGNAL_PRICE_STATUS_AVAILABLE, SignalID: "NOTAFEED", Price: 5})
				kind = "non_current_signal"
			case 1:
				kind = "too_early"
			case 2:
				for i := 0; i < 8; i++ {
					prices = append(prices, feedstypes.SignalPrice{Status: feedstypes.SIGNAL_PRICE_STATUS_AVAILABLE, SignalID: fmt.Sprintf("X%d", i), Price: 1})
				}
				kind = "too_many"
			case 3:
				if len(prices) > 0 {
					prices[0].Status = feedstypes.SIGNAL_PRICE_STATUS_UNAVAILABLE
					prices[0].Price = 7
					kind = "price_with_unavailable"
				}
			}
			e.St.Fault("feeder_" + kind)
		}
		if len(prices) == 0 {
			continue
		}
		msg := feedstypes.NewMsgSubmitSignalPrices(key, ts, prices)
		e.Submit(v.Account, "submit_prices", &feederMeta{Msg: msg, Val: v, Kind: kind}, msg)
		a.lastSent[key] = next
	}
	_ = sdk.Coins{}
}
