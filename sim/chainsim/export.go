package chainsim

import (
	sdk "github.com/cosmos/cosmos-sdk/types"

	band "github.com/bandprotocol/chain/v3/app"
	feedstypes "github.com/bandprotocol/chain/v3/x/feeds/types"
	oracletypes "github.com/bandprotocol/chain/v3/x/oracle/types"

	"verifsim/world"
)

// Exported wrappers for the daemon engines (yodasim, grogusim).

const ScriptEcho = scriptEcho

type DSSpec struct {
	Fee      sdk.Coins
	Treasury *world.Account
	Exec     []byte
}

func OracleGenesis(params oracletypes.Params, dss []DSSpec) func(w *world.World, gs band.GenesisState) {
	var in []dsSpec
	for _, d := range dss {
		in = append(in, dsSpec{Fee: d.Fee, Treasury: d.Treasury, Exec: d.Exec})
	}
	return oracleGenesis(nil, params, in)
}

func FeedsGenesis(p feedstypes.Params, allowed []string) func(w *world.World, gs band.GenesisState) {
	return feedsGenesis(p, allowed)
}

func QuietEconomy() func(w *world.World, gs band.GenesisState) { return quietEconomy() }

var BaseTime = baseTime

type GenesisState = band.GenesisState


// AnchoredIn reports the first file of the property's anchor list that appears in a panic stack ("" if none).
func AnchoredIn(prop, stack string) string { return anchoredIn(prop, stack) }
