package chainsim

import (
	"reflect"
	"bytes"
	"fmt"
	"strings"
	"time"

	"cosmossdk.io/math"

	gogoproto "github.com/cosmos/gogoproto/proto"

	codectypes "github.com/cosmos/cosmos-sdk/codec/types"
	sdk "github.com/cosmos/cosmos-sdk/types"
	"github.com/cosmos/cosmos-sdk/x/authz"
	slashingtypes "github.com/cosmos/cosmos-sdk/x/slashing/types"

	"github.com/bandprotocol/chain/v3/pkg/tss"
	bandtsstypes "github.com/bandprotocol/chain/v3/x/bandtss/types"
	feedstypes "github.com/bandprotocol/chain/v3/x/feeds/types"
	globalfeetypes "github.com/bandprotocol/chain/v3/x/globalfee/types"
	oracletypes "github.com/bandprotocol/chain/v3/x/oracle/types"
	restaketypes "github.com/bandprotocol/chain/v3/x/restake/types"
	tsstypes "github.com/bandprotocol/chain/v3/x/tss/types"
	tunneltypes "github.com/bandprotocol/chain/v3/x/tunnel/types"

	"verifsim/world"
)

// FuzzActor sends adversarial messages of every type of the band modules: well-formed messages from the wrong sender,
// field-level extremes, dangling ids, nested authz execs, multi-message transactions.
type FuzzActor struct {
	Accounts []*world.Account
	Rate     int
}

type fuzzMeta struct{ Type string }

func (a *FuzzActor) OnBlock(e *Env, blk *world.BlockRecord) {}

func (a *FuzzActor) u64(e *Env) uint64 {
	vals := []uint64{0, 1, 2, 3, 7, 100, 1<<31 - 1, 1<<63 - 1, 1 << 63, ^uint64(0)}
	if e.Ch.Bool("fuzz.u64.small", 600) {
		return uint64(e.Ch.Intn("fuzz.u64.s", 8))
	}
	return vals[e.Ch.Intn("fuzz.u64", len(vals))]
}

func (a *FuzzActor) str(e *Env) string {
	vals := []string{"", "a", "CS:BTC-USD", strings.Repeat("x", 300), "\x00\xff\xfe", "a/b:c|d,e", "band1notanaddress", strings.Repeat("Z", 32), strings.Repeat("Z", 33), "0x", "漢字"}
	return vals[e.Ch.Intn("fuzz.str", len(vals))]
}

func (a *FuzzActor) bz(e *Env) []byte {
	switch e.Ch.Intn("fuzz.bytes", 7) {
	case 0:
		return nil
	case 1:
		return []byte{0}
	case 2:
		return e.Ch.Bytes("fuzz.bytes.33", 33)
	case 3:
		p := tss.Scalar(e.Ch.Bytes("fuzz.bytes.pt", 32))
		if len(p) == 32 {
			p[0] &= 0x7f
			if p.Validate() == nil {
				return p.Point()
			}
		}
		return bytes.Repeat([]byte{2}, 33)
	case 4:
		return e.Ch.Bytes("fuzz.bytes.65", 65)
	case 5:
		return bytes.Repeat([]byte{0xff}, 600)
	}
	return e.Ch.Bytes("fuzz.bytes.48", 48)
}

func (a *FuzzActor) coins(e *Env) sdk.Coins {
	switch e.Ch.Intn("fuzz.coins", 7) {
	case 0:
		return nil
	case 1:
		return sdk.NewCoins(sdk.NewInt64Coin("uband", int64(1+e.Ch.Intn("fuzz.coins.n", 5000))))
	case 2:
		return sdk.Coins{{Denom: "uband", Amount: math.NewInt(-1)}}
	case 3:
		return sdk.Coins{{Denom: "uusd", Amount: math.NewInt(5)}, {Denom: "uband", Amount: math.NewInt(5)}} // unsorted
	case 4:
		return sdk.NewCoins(sdk.NewCoin("uband", math.NewIntFromUint64(^uint64(0))))
	case 5:
		return sdk.Coins{{Denom: "uband", Amount: math.NewInt(0)}}
	}
	return sdk.NewCoins(sdk.NewInt64Coin("uusd", 7), sdk.NewInt64Coin("uatom", 3))
}

func (a *FuzzActor) addr(e *Env, self *world.Account) string {
	switch e.Ch.Weighted("fuzz.addr", []int{70, 10, 5, 5, 5, 5}) {
	case 0:
		return self.Addr.String()
	case 1:
		return a.Accounts[e.Ch.Intn("fuzz.addr.other", len(a.Accounts))].Addr.String()
	case 2:
		return ""
	case 3:
		return "notbech32"
	case 4:
		return sdk.AccAddress(bytes.Repeat([]byte{7}, 32)).String()
	}
	return govAuthority
}

func (a *FuzzActor) points(e *Env, n int) tss.Points {
	var out tss.Points
	for i := 0; i < n; i++ {
		out = append(out, tss.Point(a.bz(e)))
	}
	return out
}

func (a *FuzzActor) Act(e *Env) {
	if e.Draining || e.Step < 2 {
		return
	}
	n := 0
	for e.Ch.Bool("fuzz.more", a.Rate) && n < 4 {
		n++
		a.one(e)
	}
}

func (a *FuzzActor) one(e *Env) {
	u := a.Accounts[e.Ch.Intn("fuzz.who", len(a.Accounts))]
	me := a.addr(e, u)
	val := sdk.ValAddress(u.Addr).String()
	if e.Ch.Bool("fuzz.val.other", 200) {
		val = e.W.Vals[e.Ch.Intn("fuzz.val", len(e.W.Vals))].Val.String()
	}
	var msg sdk.Msg
	typ := ""
	mk := func(t string, m sdk.Msg) { typ, msg = t, m }
	now := e.W.Time
	anyOf := func(m gogoproto.Message) *codectypes.Any {
		x, err := codectypes.NewAnyWithValue(m)
		if err != nil {
			return nil
		}
		return x
	}
	sd := func() []tunneltypes.SignalDeviation {
		var o []tunneltypes.SignalDeviation
		for i := 0; i < e.Ch.Intn("fuzz.sd.n", 4); i++ {
			o = append(o, tunneltypes.SignalDeviation{SignalID: a.str(e), SoftDeviationBPS: a.u64(e), HardDeviationBPS: a.u64(e)})
		}
		return o
	}
	switch e.Ch.Intn("fuzz.type", 40) {
	case 0:
		mk("oracle.RequestData", &oracletypes.MsgRequestData{OracleScriptID: oracletypes.OracleScriptID(a.u64(e)), Calldata: a.bz(e), AskCount: a.u64(e), MinCount: a.u64(e), ClientID: a.str(e),
			FeeLimit: a.coins(e), PrepareGas: a.u64(e), ExecuteGas: a.u64(e), Sender: me, TSSEncoder: oracletypes.Encoder(e.Ch.Intn("fuzz.enc", 5))})
	case 1:
		var rr []oracletypes.RawReport
		for i := 0; i < e.Ch.Intn("fuzz.rr", 4); i++ {
			rr = append(rr, oracletypes.RawReport{ExternalID: oracletypes.ExternalID(a.u64(e)), ExitCode: uint32(a.u64(e)), Data: a.bz(e)})
		}
		mk("oracle.ReportData", &oracletypes.MsgReportData{RequestID: oracletypes.RequestID(a.u64(e)), RawReports: rr, Validator: val})
	case 2:
		mk("oracle.CreateDataSource", &oracletypes.MsgCreateDataSource{Name: a.str(e), Description: a.str(e), Executable: a.bz(e), Fee: a.coins(e), Treasury: a.addr(e, u), Owner: a.addr(e, u), Sender: me})
	case 3:
		mk("oracle.EditDataSource", &oracletypes.MsgEditDataSource{DataSourceID: oracletypes.DataSourceID(a.u64(e)), Name: a.str(e), Description: a.str(e), Executable: a.bz(e), Fee: a.coins(e), Treasury: a.addr(e, u), Owner: a.addr(e, u), Sender: me})
	case 4:
		code := a.bz(e)
		if e.Ch.Bool("fuzz.wasm.valid", 300) {
			code = compiledSource(e.Ch.Intn("fuzz.wasm.which", 3))
		}
		mk("oracle.CreateOracleScript", &oracletypes.MsgCreateOracleScript{Name: a.str(e), Description: a.str(e), Schema: a.str(e), SourceCodeURL: a.str(e), Code: code, Owner: a.addr(e, u), Sender: me})
	case 5:
		mk("oracle.EditOracleScript", &oracletypes.MsgEditOracleScript{OracleScriptID: oracletypes.OracleScriptID(a.u64(e)), Name: a.str(e), Description: a.str(e), Schema: a.str(e), SourceCodeURL: a.str(e), Code: a.bz(e), Owner: a.addr(e, u), Sender: me})
	case 6:
		mk("oracle.Activate", &oracletypes.MsgActivate{Validator: val})
	case 7:
		p := drawOracleParams(e)
		p.MaxCalldataSize, p.MaxReportDataSize = a.u64(e), a.u64(e)
		mk("oracle.UpdateParams", &oracletypes.MsgUpdateParams{Authority: me, Params: p})
	case 8:
		mk("tss.SubmitDKGRound1", &tsstypes.MsgSubmitDKGRound1{GroupID: tss.GroupID(a.u64(e)), Round1Info: tsstypes.Round1Info{MemberID: tss.MemberID(a.u64(e)), CoefficientCommits: a.points(e, e.Ch.Intn("fuzz.cc", 4)),
			OneTimePubKey: tss.Point(a.bz(e)), A0Signature: tss.Signature(a.bz(e)), OneTimeSignature: tss.Signature(a.bz(e))}, Sender: me})
	case 9:
		var es tss.EncSecretShares
		for i := 0; i < e.Ch.Intn("fuzz.ess", 4); i++ {
			es = append(es, tss.EncSecretShare(a.bz(e)))
		}
		mk("tss.SubmitDKGRound2", &tsstypes.MsgSubmitDKGRound2{GroupID: tss.GroupID(a.u64(e)), Round2Info: tsstypes.Round2Info{MemberID: tss.MemberID(a.u64(e)), EncryptedSecretShares: es}, Sender: me})
	case 10:
		var cs []tsstypes.Complaint
		for i := 0; i < e.Ch.Intn("fuzz.cs", 3); i++ {
			cs = append(cs, tsstypes.Complaint{Complainant: tss.MemberID(a.u64(e)), Respondent: tss.MemberID(a.u64(e)), KeySym: tss.Point(a.bz(e)), Signature: tss.ComplaintSignature(a.bz(e))})
		}
		mk("tss.Complain", &tsstypes.MsgComplain{GroupID: tss.GroupID(a.u64(e)), Complaints: cs, Sender: me})
	case 11:
		mk("tss.Confirm", &tsstypes.MsgConfirm{GroupID: tss.GroupID(a.u64(e)), MemberID: tss.MemberID(a.u64(e)), OwnPubKeySig: tss.Signature(a.bz(e)), Sender: me})
	case 12:
		var des []tsstypes.DE
		for i := 0; i < e.Ch.Intn("fuzz.des", 4); i++ {
			des = append(des, tsstypes.DE{PubD: tss.Point(a.bz(e)), PubE: tss.Point(a.bz(e))})
		}
		mk("tss.SubmitDEs", &tsstypes.MsgSubmitDEs{DEs: des, Sender: me})
	case 13:
		mk("tss.ResetDE", &tsstypes.MsgResetDE{Sender: me})
	case 14:
		mk("tss.SubmitSignature", &tsstypes.MsgSubmitSignature{SigningID: tss.SigningID(a.u64(e)), MemberID: tss.MemberID(a.u64(e)), Signature: tss.Signature(a.bz(e)), Signer: me})
	case 15:
		p := drawTSSParams(e)
		p.MaxMemoLength, p.MaxMessageLength = 1+a.u64(e)%2000, 1+a.u64(e)%2000
		mk("tss.UpdateParams", &tsstypes.MsgUpdateParams{Authority: me, Params: p})
	case 16:
		var ms []string
		for i := 0; i < e.Ch.Intn("fuzz.members", 4); i++ {
			ms = append(ms, a.addr(e, u))
		}
		mk("bandtss.TransitionGroup", &bandtsstypes.MsgTransitionGroup{Members: ms, Threshold: a.u64(e), ExecTime: now.Add(time.Duration(e.Ch.Intn("fuzz.exec", 600)) * time.Second), Authority: me})
	case 17:
		mk("bandtss.ForceTransitionGroup", &bandtsstypes.MsgForceTransitionGroup{IncomingGroupID: tss.GroupID(a.u64(e)), ExecTime: now.Add(time.Duration(e.Ch.Intn("fuzz.exec2", 600)) * time.Second), Authority: me})
	case 18:
		var c tsstypes.Content
		switch e.Ch.Intn("fuzz.content", 4) {
		case 0:
			c = tsstypes.NewTextSignatureOrder(a.bz(e))
		case 1:
			c = feedstypes.NewFeedSignatureOrder([]string{a.str(e), a.str(e)}, feedstypes.Encoder(e.Ch.Intn("fuzz.fenc", 4)))
		case 2:
			c = oracletypes.NewOracleResultSignatureOrder(oracletypes.RequestID(a.u64(e)), oracletypes.Encoder(e.Ch.Intn("fuzz.oenc", 5)))
		case 3:
			c = bandtsstypes.NewGroupTransitionSignatureOrder(a.bz(e), now)
		}
		m, err := bandtsstypes.NewMsgRequestSignature(c, a.coins(e), me)
		if err != nil {
			return
		}
		m.Memo = a.str(e)
		mk("bandtss.RequestSignature", m)
	case 19:
		mk("bandtss.Activate", &bandtsstypes.MsgActivate{Sender: me, GroupID: tss.GroupID(a.u64(e))})
	case 20:
		p := drawBandtssParams(e)
		p.FeePerSigner = a.coins(e)
		mk("bandtss.UpdateParams", &bandtsstypes.MsgUpdateParams{Authority: me, Params: p})
	case 21:
		var sg []feedstypes.Signal
		for i := 0; i < e.Ch.Intn("fuzz.signals", 4); i++ {
			sg = append(sg, feedstypes.Signal{ID: a.str(e), Power: int64(a.u64(e))})
		}
		mk("feeds.Vote", &feedstypes.MsgVote{Voter: me, Signals: sg})
	case 22:
		var sp []feedstypes.SignalPrice
		for i := 0; i < e.Ch.Intn("fuzz.sp", 4); i++ {
			sp = append(sp, feedstypes.SignalPrice{Status: feedstypes.SignalPriceStatus(e.Ch.Intn("fuzz.sps", 5)), SignalID: a.str(e), Price: a.u64(e)})
		}
		ts := now.Unix()
		if e.Ch.Bool("fuzz.sp.ts", 300) {
			ts = int64(a.u64(e))
		}
		mk("feeds.SubmitSignalPrices", &feedstypes.MsgSubmitSignalPrices{Validator: val, Timestamp: ts, SignalPrices: sp})
	case 23:
		mk("feeds.UpdateReferenceSourceConfig", &feedstypes.MsgUpdateReferenceSourceConfig{Admin: me, ReferenceSourceConfig: feedstypes.ReferenceSourceConfig{RegistryIPFSHash: a.str(e), RegistryVersion: a.str(e)}})
	case 24:
		mk("feeds.UpdateParams", &feedstypes.MsgUpdateParams{Authority: me, Params: drawFeedsParams(e)})
	case 25:
		var route *codectypes.Any
		switch e.Ch.Intn("fuzz.route", 3) {
		case 0:
			r := tunneltypes.NewTSSRoute(a.str(e), a.str(e), feedstypes.Encoder(e.Ch.Intn("fuzz.renc", 4)))
			route = anyOf(&r)
		case 1:
			route = anyOf(tunneltypes.NewIBCRoute(a.str(e)))
		}
		mk("tunnel.CreateTunnel", &tunneltypes.MsgCreateTunnel{SignalDeviations: sd(), Interval: a.u64(e), Route: route, InitialDeposit: a.coins(e), Creator: me})
	case 26:
		mk("tunnel.UpdateRoute", &tunneltypes.MsgUpdateRoute{TunnelID: a.u64(e), Route: anyOf(tunneltypes.NewIBCRoute("channel-" + fmt.Sprint(a.u64(e)%5))), Creator: me})
	case 27:
		mk("tunnel.UpdateSignalsAndInterval", &tunneltypes.MsgUpdateSignalsAndInterval{TunnelID: a.u64(e), SignalDeviations: sd(), Interval: a.u64(e), Creator: me})
	case 28:
		mk("tunnel.Activate", &tunneltypes.MsgActivate{TunnelID: a.u64(e), Creator: me})
	case 29:
		mk("tunnel.Deactivate", &tunneltypes.MsgDeactivate{TunnelID: a.u64(e), Creator: me})
	case 30:
		mk("tunnel.TriggerTunnel", &tunneltypes.MsgTriggerTunnel{TunnelID: a.u64(e), Creator: me})
	case 31:
		mk("tunnel.DepositToTunnel", &tunneltypes.MsgDepositToTunnel{TunnelID: a.u64(e), Amount: a.coins(e), Depositor: me})
	case 32:
		mk("tunnel.WithdrawFromTunnel", &tunneltypes.MsgWithdrawFromTunnel{TunnelID: a.u64(e), Amount: a.coins(e), Withdrawer: me})
	case 33:
		mk("tunnel.UpdateParams", &tunneltypes.MsgUpdateParams{Authority: me, Params: drawTunnelParams(e)})
	case 34:
		mk("restake.Stake", &restaketypes.MsgStake{StakerAddress: me, Coins: a.coins(e)})
	case 35:
		mk("restake.Unstake", &restaketypes.MsgUnstake{StakerAddress: me, Coins: a.coins(e)})
	case 36:
		mk("restake.UpdateParams", &restaketypes.MsgUpdateParams{Authority: me, Params: restaketypes.Params{AllowedDenoms: []string{a.str(e), "uusd"}}})
	case 37:
		mk("globalfee.UpdateParams", &globalfeetypes.MsgUpdateParams{Authority: me, Params: globalfeetypes.Params{MinimumGasPrices: sdk.NewDecCoins(sdk.NewDecCoinFromDec("uband", math.LegacyNewDecWithPrec(int64(e.Ch.Intn("fuzz.gp", 100)), 4)))}})
	case 38:
		mk("slashing.Unjail", slashingtypes.NewMsgUnjail(val))
	case 39:
		// any of the above nested in an authz exec without a grant
		inner := &tsstypes.MsgResetDE{Sender: a.Accounts[e.Ch.Intn("fuzz.authz.granter", len(a.Accounts))].Addr.String()}
		var in sdk.Msg = inner
		if e.Ch.Bool("fuzz.authz.report", 500) {
			in = &oracletypes.MsgReportData{RequestID: oracletypes.RequestID(a.u64(e)), RawReports: []oracletypes.RawReport{{ExternalID: 1, Data: []byte("x")}}, Validator: e.W.Vals[0].Val.String()}
		}
		ex := authz.NewMsgExec(u.Addr, []sdk.Msg{in})
		mk("authz.Exec", &ex)
	}
	if msg == nil {
		return
	}
	in := &world.Intent{Signer: u, Msgs: []sdk.Msg{msg}, Tag: "fuzz:" + typ, Meta: &fuzzMeta{Type: typ}}
	if e.Ch.Bool("fuzz.gas", 100) {
		in.Gas = uint64(20_000 + e.Ch.Intn("fuzz.gas.n", 400_000))
	}
	if e.Ch.Bool("fuzz.multi", 100) {
		in.Msgs = append(in.Msgs, &tsstypes.MsgResetDE{Sender: u.Addr.String()})
	}
	e.W.Submit(in)
}

func compiledSource(i int) []byte {
	// valid (uncompiled) wasm for MsgCreateOracleScript
	srcs := [][]byte{wasmSrc(watNoReturn), wasmSrc(watTrap), wasmSrc(watNoReturn)}
	return srcs[i%len(srcs)]
}

// ParamChurn changes module parameters through governance with values accepted by the modules' own validation.
type ParamChurn struct {
	Rate int
}

func (p *ParamChurn) OnBlock(e *Env, blk *world.BlockRecord) {}
func (p *ParamChurn) Act(e *Env) {
	if e.Draining || e.Step < 4 || !e.Ch.Bool("churn", p.Rate) {
		return
	}
	gov := getGov(e)
	if gov == nil {
		return
	}
	ctx := e.Ctx()
	if e.Ch.Bool("churn.extreme", 350) {
		// a value at the edge of the field's range in ONE numeric field of the module's current parameters - proposed only if the
		// module's own validation accepts it (the property quantifies over exactly those)
		p.extreme(e, gov)
		return
	}
	switch e.Ch.Intn("churn.module", 6) {
	case 0:
		np := drawOracleParams(e)
		np.OracleRewardPercentage = e.App().OracleKeeper.GetParams(ctx).OracleRewardPercentage
		if np.Validate() == nil {
			gov.Propose(e, "params_oracle", nil, &oracletypes.MsgUpdateParams{Authority: govAuthority, Params: np})
		}
	case 1:
		np := drawTSSParams(e)
		if np.Validate() == nil {
			gov.Propose(e, "params_tss", nil, &tsstypes.MsgUpdateParams{Authority: govAuthority, Params: np})
		}
	case 2:
		np := drawBandtssParams(e)
		np.RewardPercentage = e.App().BandtssKeeper.GetParams(ctx).RewardPercentage
		if np.Validate() == nil {
			gov.Propose(e, "params_bandtss", nil, &bandtsstypes.MsgUpdateParams{Authority: govAuthority, Params: np})
		}
	case 3:
		np := drawFeedsParams(e)
		if np.Validate() == nil {
			gov.Propose(e, "params_feeds", nil, &feedstypes.MsgUpdateParams{Authority: govAuthority, Params: np})
		}
	case 4:
		np := drawTunnelParams(e)
		if np.Validate() == nil {
			gov.Propose(e, "params_tunnel", nil, &tunneltypes.MsgUpdateParams{Authority: govAuthority, Params: np})
		}
	case 5:
		np := restaketypes.Params{AllowedDenoms: [][]string{{"uusd"}, {"uusd", "uatom"}, {}}[e.Ch.Intn("churn.restake", 3)]}
		gov.Propose(e, "params_restake", nil, &restaketypes.MsgUpdateParams{Authority: govAuthority, Params: np})
	}
	e.St.Fault("gov_param_change")
}

// setExtreme puts an edge value into one int64/uint64 field of a parameter struct (chosen by the tape); false if there is none.
func setExtreme(e *Env, ptr any) (string, bool) {
	v := reflect.ValueOf(ptr).Elem()
	var idx []int
	for i := 0; i < v.NumField(); i++ {
		k := v.Field(i).Kind()
		if (k == reflect.Uint64 || k == reflect.Int64) && v.Field(i).CanSet() {
			idx = append(idx, i)
		}
	}
	if len(idx) == 0 {
		return "", false
	}
	i := idx[e.Ch.Intn("churn.extreme.field", len(idx))]
	f := v.Field(i)
	edges := []uint64{1<<64 - 1, 1<<63 - 1, 1 << 63, 1 << 62, 1 << 32, 1<<31 - 1, 0, 1}
	x := edges[e.Ch.Intn("churn.extreme.value", len(edges))]
	if f.Kind() == reflect.Uint64 {
		f.SetUint(x)
	} else {
		f.SetInt(int64(x))
	}
	return fmt.Sprintf("%s=%d", v.Type().Field(i).Name, x), true
}

func (p *ParamChurn) extreme(e *Env, gov *GovActor) {
	ctx := e.Ctx()
	var what string
	var ok bool
	switch e.Ch.Intn("churn.extreme.module", 5) {
	case 0:
		np := e.App().OracleKeeper.GetParams(ctx)
		keep := np.OracleRewardPercentage
		if what, ok = setExtreme(e, &np); ok && np.Validate() == nil && np.OracleRewardPercentage == keep {
			gov.Propose(e, "params_oracle", nil, &oracletypes.MsgUpdateParams{Authority: govAuthority, Params: np})
		} else {
			ok = false
		}
	case 1:
		np := e.App().TSSKeeper.GetParams(ctx)
		if what, ok = setExtreme(e, &np); ok && np.Validate() == nil {
			gov.Propose(e, "params_tss", nil, &tsstypes.MsgUpdateParams{Authority: govAuthority, Params: np})
		} else {
			ok = false
		}
	case 2:
		np := e.App().BandtssKeeper.GetParams(ctx)
		if what, ok = setExtreme(e, &np); ok && np.Validate() == nil {
			gov.Propose(e, "params_bandtss", nil, &bandtsstypes.MsgUpdateParams{Authority: govAuthority, Params: np})
		} else {
			ok = false
		}
	case 3:
		np := e.App().FeedsKeeper.GetParams(ctx)
		if what, ok = setExtreme(e, &np); ok && np.Validate() == nil {
			gov.Propose(e, "params_feeds", nil, &feedstypes.MsgUpdateParams{Authority: govAuthority, Params: np})
		} else {
			ok = false
		}
	case 4:
		np := e.App().TunnelKeeper.GetParams(ctx)
		if what, ok = setExtreme(e, &np); ok && np.Validate() == nil {
			gov.Propose(e, "params_tunnel", nil, &tunneltypes.MsgUpdateParams{Authority: govAuthority, Params: np})
		} else {
			ok = false
		}
	}
	if ok {
		e.St.Fault("gov_param_change_to_an_edge_value")
		e.Log.Add("edge-value parameter proposal: %s", what)
	}
}

// C02 — block execution is total and deterministic. The oracle itself (no halt, replicas agree) lives in the engine; this
// monitor measures reach.
type C02 struct {
	guidanceLost bool
	types      map[string]bool
	failed     int
	crossBlock int
	blocks     int
}

func (m *C02) Prop() string { return "C02" }
// pumpShadows advances the shared reference models, which in this profile no monitor judges: the actors read them to aim
// their inputs (voting power left, tunnel thresholds, queue lengths). The adversarial generator can drive the chain into
// states those models do not cover; guidance is then simply dropped for the rest of the run.
func (m *C02) pumpShadows(e *Env, blk *world.BlockRecord) {
	if m.guidanceLost {
		return
	}
	defer func() {
		if r := recover(); r != nil {
			m.guidanceLost = true
			e.St.Probe("c02_actor_guidance_models_dropped")
		}
	}()
	if x, ok := e.Shared["stake.shadow"].(*StakeShadow); ok {
		x.Advance(e, blk)
	}
	if x, ok := e.Shared["feeds.shadow"].(*FeedsShadow); ok {
		x.Advance(e, blk)
	}
	if x, ok := e.Shared["tss.shadow"].(*TSSShadow); ok {
		x.Advance(e, blk)
	}
	if x, ok := e.Shared["tunnel.shadow"].(*TunnelShadow); ok {
		x.Advance(e, blk)
	}
}

func (m *C02) OnBlock(e *Env, blk *world.BlockRecord) {
	if m.types == nil {
		m.types = map[string]bool{}
	}
	m.pumpShadows(e, blk)
	m.blocks++
	for _, tx := range blk.Txs {
		for _, msg := range tx.Intent.Msgs {
			t := sdk.MsgTypeURL(msg)
			m.types[t] = true
			e.St.Covered(fmt.Sprintf("c02.%s.code%d.%s", t, tx.Result.Code, tx.Result.Codespace))
		}
		if !tx.OK() {
			m.failed++
		}
	}
	mods := map[string]bool{}
	for _, ev := range ParseEvents(blk.Resp.Events) {
		if ev.Mode != "EndBlock" {
			continue
		}
		switch ev.Type {
		case "resolve":
			mods["oracle"] = true
		case "request_signature", "signing_success", "signing_failed", "round1_success", "round3_success", "expired_group":
			mods["tss"] = true
		case "group_transition", "group_transition_success", "group_transition_failed", "inactive_status":
			mods["bandtss"] = true
		case "update_price", "update_current_feeds":
			mods["feeds"] = true
		case "produce_packet_success", "produce_packet_fail":
			mods["tunnel"] = true
		case "active_proposal":
			mods["gov"] = true
		}
	}
	if len(mods) >= 3 {
		m.crossBlock++
		e.St.Trace(fmt.Sprintf("endblock(%d modules)", len(mods)))
	}
}
func (m *C02) Pending(e *Env) bool { return false }
func (m *C02) Finish(e *Env)       {}
func (m *C02) NonTrivial(e *Env) bool {
	e.St.ProbeN("c02_blocks", m.blocks)
	e.St.ProbeN("c02_failed_txs", m.failed)
	e.St.ProbeN("c02_end_blocks_with_3plus_modules", m.crossBlock)
	e.St.ProbeN("c02_message_types_in_run", len(m.types))
	e.St.Trace(fmt.Sprintf("types=%d", len(m.types)))
	return len(m.types) >= 20 && m.failed > 0 && m.crossBlock > 0
}
