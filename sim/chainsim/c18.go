package chainsim

import (
	"fmt"
	"sort"
	"strings"
	"time"

	sdk "github.com/cosmos/cosmos-sdk/types"

	"github.com/bandprotocol/chain/v3/pkg/tss"
	bandtsstypes "github.com/bandprotocol/chain/v3/x/bandtss/types"
	tsstypes "github.com/bandprotocol/chain/v3/x/tss/types"

	"verifsim/world"
)

// C18 — the signing group changes only through a completed, scheduled transition.
// A specification state machine (slot with at most one transition) is advanced each block in the order gov -> tss -> bandtss
// from facts owned by other modules (proposal executed, DKG outcome, hand-over signing outcome, block time).

type mTransition struct {
	Incoming uint64
	Exec     time.Time
	Forced   bool
	Status   string // creating, waiting_sign, waiting_exec
	Handover uint64 // signing id of the hand-over message
	Since    int64
}

type C18 struct {
	inited  bool
	cur     uint64
	tr      *mTransition
	params  bandtsstypes.Params
	nExecuted, nDropped, nForced, nRejectedBusy, nReqDuringWait int
	dropReasons map[string]int
	prevStatus  map[uint64]tsstypes.GroupStatus
	firstPeriod uint64
	availPrev   map[string]int // incoming-group members active in both modules at the end of the previous block -> queued nonces
}

// resetInBlock reports whether the block carries a nonce reset (which empties a queue in the middle of the block).
func (m *C18) resetInBlock(blk *world.BlockRecord) bool {
	for _, tx := range blk.Txs {
		if tx.Intent.Tag == "reset_de" {
			return true
		}
	}
	return false
}

// snapshotAvail records, for the transition's incoming group, who could serve a signing at the end of this block.
func (m *C18) snapshotAvail(e *Env, sh *TSSShadow) {
	m.availPrev = nil
	if m.tr == nil || m.tr.Status != "waiting_exec" {
		return
	}
	g := sh.group(e, m.tr.Incoming)
	if g == nil {
		return
	}
	m.availPrev = map[string]int{}
	for _, mem := range g.Members {
		act, known := sh.TSSActive[m.tr.Incoming][mem.Address]
		if !known {
			act = mem.IsActive
		}
		if act && len(sh.Queues[mem.Address]) > 0 {
			m.availPrev[mem.Address] = len(sh.Queues[mem.Address])
		}
	}
}


func (m *C18) Prop() string { return "C18" }

func (m *C18) OnBlock(e *Env, blk *world.BlockRecord) {
	ctx := e.Ctx()
	bk := e.App().BandtssKeeper
	tk := e.App().TSSKeeper
	sh := getShadow(e)
	sh.Advance(e, blk)
	if !m.inited {
		m.inited = true
		m.dropReasons = map[string]int{}
		m.params = e.Shared["bandtss.genesis.params"].(bandtsstypes.Params)
		if g, ok := e.Shared["bandtss.genesis.current"].(uint64); ok {
			m.cur = g
		}
		m.prevStatus = map[uint64]tsstypes.GroupStatus{}
		if m.cur != 0 {
			m.prevStatus[m.cur] = tsstypes.GROUP_STATUS_ACTIVE
		}
	}
	now := blk.Time
	paramsAfter := bk.GetParams(ctx)
	statusBefore := ""
	if m.tr != nil {
		statusBefore = m.tr.Status
	}
	curBefore, trBefore := m.cur, m.tr

	// (d) requests made while a transition awaits execution
	for _, tx := range blk.Txs {
		rq, ok := tx.Intent.Meta.(*reqSigMeta)
		if !ok || !tx.OK() {
			continue
		}
		for _, ev := range EventsOfType(ParseEvents(tx.Result.Events), bandtsstypes.EventTypeSigningRequestCreated) {
			curSid := ev.U64(bandtsstypes.AttributeKeyCurrentGroupSigningID)
			incSid := ev.U64(bandtsstypes.AttributeKeyIncomingGroupSigningID)
			if (curBefore != 0) != (curSid != 0) {
				e.Fail("C18", "request_current_group_signing", "", "request by %s accepted with current group %d but current-group signing id %d", rq.Sender.Name, curBefore, curSid)
				return
			}
			if curSid != 0 {
				if sg := sh.Signings[curSid]; sg == nil || sg.GroupID != curBefore {
					e.Fail("C18", "request_current_group_signing", "group", "current-group signing %d is not a signing of the current group %d", curSid, curBefore)
					return
				}
			}
			if incSid != 0 {
				if statusBefore != "waiting_exec" {
					e.Fail("C18", "incoming_signing_without_transition", "", "request created incoming-group signing %d but no transition awaits execution (model status %q)", incSid, statusBefore)
					return
				}
				if sg := sh.Signings[incSid]; sg == nil || sg.GroupID != trBefore.Incoming {
					e.Fail("C18", "incoming_signing_group", "", "incoming-group signing %d is not a signing of the incoming group %d", incSid, trBefore.Incoming)
					return
				}
			}
			if statusBefore == "waiting_exec" {
				m.nReqDuringWait++
				e.St.Trace(fmt.Sprintf("req-during-wait(inc=%v)", incSid != 0))
				// "additionally put to the incoming group (best effort)": the effort may fail only when the incoming group cannot
				// serve. Counted as surely able to serve: members that were active with queued nonces when the block began and
				// still have one left after every assignment of this block (blocks with nonce resets are not judged).
				if incSid == 0 && curSid != 0 && m.availPrev != nil && !m.resetInBlock(blk) {
					if g := sh.group(e, trBefore.Incoming); g != nil {
						used := map[string]int{}
						for _, a := range sh.J.Assigns {
							for _, am := range a.Att.Members {
								used[am.Addr]++
							}
						}
						sure := 0
						for _, mem := range g.Members {
							if q, ok := m.availPrev[mem.Address]; ok && q-used[mem.Address] >= 1 {
								sure++
							}
						}
						if uint64(sure) >= g.Threshold && g.Threshold > 0 {
							e.Fail("C18", "incoming_group_not_asked", "", "request by %s accepted while the transition to group %d awaits execution: only the current group was asked although %d members of the incoming group (threshold %d) were active with a queued nonce",
								rq.Sender.Name, trBefore.Incoming, sure, g.Threshold)
							return
						}
					}
				}
			}
		}
	}

	// 1. gov end blocker: proposals decided in this block
	if gov := getGov(e); gov != nil {
		props := gov.ResultsAt(blk.Height)
		sort.Slice(props, func(i, j int) bool { return props[i].ID < props[j].ID })
		for _, p := range props {
			tm, ok := p.Meta.(*transMeta)
			if !ok || (p.Result != "proposal_passed" && p.Result != "proposal_failed") {
				continue
			}
			inWindow := func(par bandtsstypes.Params) bool {
				return !tm.ExecTime.Before(now.Add(par.MinTransitionDuration)) && !tm.ExecTime.After(now.Add(par.MaxTransitionDuration))
			}
			accept := m.tr == nil && inWindow(m.params)
			acceptAlt := m.tr == nil && inWindow(paramsAfter)
			why := ""
			if m.tr != nil {
				why = "transition_in_progress"
			} else if !inWindow(m.params) {
				why = "exec_time_out_of_window"
			}
			if tm.Force != nil && accept {
				gid := uint64(tm.Force.IncomingGroupID)
				// gov runs before the tss end blocker: the group status that counts is the one before this end block
				st, known := m.prevStatus[gid]
				switch {
				case gid == m.cur:
					accept, acceptAlt, why = false, false, "same_as_current"
				case !known || st != tsstypes.GROUP_STATUS_ACTIVE:
					accept, acceptAlt, why = false, false, "incoming_not_active"
				}
			}
			got := p.Result == "proposal_passed"
			if got != accept && got != acceptAlt {
				e.Fail("C18", "proposal_acceptance", why, "proposal %d (%s, exec %s, block time %s): specification says accept=%v (%s), chain result %s",
					p.ID, p.Tag, tm.ExecTime.Format(time.RFC3339), now.Format(time.RFC3339Nano), accept, why, p.Result)
				return
			}
			if !got {
				if why == "transition_in_progress" {
					m.nRejectedBusy++
				}
				e.St.Trace("proposal-rejected:" + why)
				continue
			}
			if tm.Force != nil {
				m.tr = &mTransition{Incoming: uint64(tm.Force.IncomingGroupID), Exec: tm.ExecTime, Forced: true, Status: "waiting_exec", Since: blk.Height}
				m.nForced++
				e.St.Trace("force-transition")
			} else {
				// the new group is the one created by this proposal: the highest group id whose members match
				gid := m.findNewGroup(e, tm)
				m.tr = &mTransition{Incoming: gid, Exec: tm.ExecTime, Status: "creating", Since: blk.Height}
				e.St.Trace("transition")
			}
			e.W.Deadlines = append(e.W.Deadlines, tm.ExecTime)
		}
	}

	// 2. tss end blocker: DKG outcome, hand-over signing outcome
	if m.tr != nil && m.tr.Status == "creating" {
		g, err := tk.GetGroup(ctx, tss.GroupID(m.tr.Incoming))
		if err == nil {
			switch g.Status {
			case tsstypes.GROUP_STATUS_ACTIVE:
				if m.tr.Exec.Before(now) {
					// completion came too late: stays as it is and is dropped below
				} else if m.cur == 0 {
					m.tr.Status = "waiting_exec"
				} else {
					// the hand-over message must be put to the current group
					sid := uint64(0)
					for _, a := range sh.J.Assigns {
						if a.InEndBlock && a.Att.N == 1 && strings.Contains(a.Sig.ContentType, "GroupTransitionSignatureOrder") {
							sid = a.Sig.ID
						}
					}
					if sid != 0 {
						if sh.Signings[sid].GroupID != m.cur {
							e.Fail("C18", "handover_signing_group", "", "hand-over signing %d was put to group %d, current group is %d", sid, sh.Signings[sid].GroupID, m.cur)
							return
						}
						m.tr.Status, m.tr.Handover = "waiting_sign", sid
					} else {
						m.drop(e, "handover_signing_not_created")
					}
				}
			case tsstypes.GROUP_STATUS_FALLEN:
				m.drop(e, "dkg_failed")
			case tsstypes.GROUP_STATUS_EXPIRED:
				m.drop(e, "dkg_expired")
			}
		}
	}
	if m.tr != nil && m.tr.Status == "waiting_sign" {
		if sg := sh.Signings[m.tr.Handover]; sg != nil {
			switch sg.Status {
			case sigSuccess:
				m.tr.Status = "waiting_exec"
			case sigFallen:
				m.drop(e, "handover_signing_failed")
			default:
				// the hand-over signing must come to an end: when its current attempt has expired, the end blocker either starts
				// another attempt or fails the signing (which drops the transition). An attempt that expired blocks ago and is
				// still the current one of a waiting signing means neither happened. (Signing period unchanged in this profile,
				// so expiries are processed in creation order.)
				tp := tk.GetParams(ctx)
				if m.firstPeriod == 0 {
					m.firstPeriod = tp.SigningPeriod
				}
				if cur := sg.Cur(); cur != nil && cur.Expired > 0 && tp.SigningPeriod == m.firstPeriod && blk.Height >= cur.Expired+3 && m.tr.Exec.After(now) {
					e.Fail("C18", "handover_signing_not_concluded", "", "transition to group %d awaits hand-over signing %d whose attempt %d expired at height %d; at height %d the signing has neither a new attempt nor failed, and the transition is still waiting",
						m.tr.Incoming, m.tr.Handover, cur.N, cur.Expired, blk.Height)
					return
				}
			}
		}
	}
	// 3. bandtss end blocker
	executed := false
	if m.tr != nil && !m.tr.Exec.After(now) {
		if m.tr.Status == "waiting_exec" {
			m.cur = m.tr.Incoming
			m.tr = nil
			executed = true
			m.nExecuted++
			e.St.Trace("executed")
		} else {
			m.drop(e, "exec_time_reached_in_"+m.tr.Status)
		}
	}
	m.params = paramsAfter

	// compare with the chain
	chainCur := uint64(bk.GetCurrentGroup(ctx).GroupID)
	ct, found := bk.GetGroupTransition(ctx)
	if chainCur != m.cur {
		inv := "group_changed_without_completed_transition"
		if chainCur == curBefore {
			inv = "transition_not_executed"
		}
		e.Fail("C18", inv, "", "current group on chain %d, specification %d (before this block %d; transition before: %s) at height %d time %s",
			chainCur, m.cur, curBefore, descTr(trBefore), blk.Height, now.Format(time.RFC3339Nano))
		return
	}
	if found != (m.tr != nil) {
		e.Fail("C18", "transition_slot", "", "transition on chain present=%v (%v), specification %s at height %d (before: %s)", found, ct.Status, descTr(m.tr), blk.Height, descTr(trBefore))
		return
	}
	if found {
		want := map[string]bandtsstypes.TransitionStatus{"creating": bandtsstypes.TRANSITION_STATUS_CREATING_GROUP, "waiting_sign": bandtsstypes.TRANSITION_STATUS_WAITING_SIGN,
			"waiting_exec": bandtsstypes.TRANSITION_STATUS_WAITING_EXECUTION}[m.tr.Status]
		if ct.Status != want || uint64(ct.IncomingGroupID) != m.tr.Incoming || !ct.ExecTime.Equal(m.tr.Exec) || ct.IsForceTransition != m.tr.Forced {
			e.Fail("C18", "transition_state", m.tr.Status, "transition on chain {status %v incoming %d exec %s forced %v}, specification %s", ct.Status, ct.IncomingGroupID, ct.ExecTime.Format(time.RFC3339), ct.IsForceTransition, descTr(m.tr))
			return
		}
	}
	// member list of the module = members of the current group (+ incoming group while it awaits execution)
	want := map[string]bool{}
	addGroup := func(gid uint64) {
		if gid == 0 {
			return
		}
		ms, _ := tk.GetGroupMembers(ctx, tss.GroupID(gid))
		for _, x := range ms {
			want[fmt.Sprintf("%s/%d", x.Address, gid)] = true
		}
	}
	addGroup(m.cur)
	if m.tr != nil && m.tr.Status == "waiting_exec" {
		addGroup(m.tr.Incoming)
	}
	got := map[string]bool{}
	for _, bm := range bk.GetMembers(ctx) {
		got[fmt.Sprintf("%s/%d", bm.Address, bm.GroupID)] = true
	}
	if fmt.Sprint(sortedStrings(got)) != fmt.Sprint(sortedStrings(want)) {
		inv := "member_list"
		if executed {
			inv = "member_list_after_execution"
		}
		e.Fail("C18", inv, "", "module members %v, expected exactly the members of group %d%s: %v", sortedStrings(got), m.cur, incDesc(m.tr), sortedStrings(want))
		return
	}
	if m.tr != nil {
		e.W.Deadlines = append(e.W.Deadlines, m.tr.Exec)
	}
	m.prevStatus = map[uint64]tsstypes.GroupStatus{}
	for _, g := range tk.GetGroups(ctx) {
		m.prevStatus[uint64(g.ID)] = g.Status
	}
	m.snapshotAvail(e, sh)
	_ = sdk.Coins{}
}

func incDesc(t *mTransition) string {
	if t != nil && t.Status == "waiting_exec" {
		return fmt.Sprintf(" and incoming group %d", t.Incoming)
	}
	return ""
}

func descTr(t *mTransition) string {
	if t == nil {
		return "none"
	}
	return fmt.Sprintf("{%s incoming %d exec %s forced %v}", t.Status, t.Incoming, t.Exec.Format(time.RFC3339), t.Forced)
}

func (m *C18) drop(e *Env, reason string) {
	m.tr = nil
	m.nDropped++
	m.dropReasons[reason]++
	e.St.Trace("dropped:" + reason)
	e.St.Covered("c18.dropped." + reason)
}

// findNewGroup identifies the group created by an accepted MsgTransitionGroup (latest group with these members).
func (m *C18) findNewGroup(e *Env, tm *transMeta) uint64 {
	ctx := e.Ctx()
	tk := e.App().TSSKeeper
	n := tk.GetGroupCount(ctx)
	for gid := n; gid >= 1; gid-- {
		ms, err := tk.GetGroupMembers(ctx, tss.GroupID(gid))
		if err != nil || len(ms) != len(tm.Msg.Members) {
			continue
		}
		same := true
		for i, x := range ms {
			if x.Address != tm.Msg.Members[i] {
				same = false
			}
		}
		if same {
			return gid
		}
	}
	return 0
}

func (m *C18) Pending(e *Env) bool { return m.tr != nil }
func (m *C18) Finish(e *Env)       {}
func (m *C18) NonTrivial(e *Env) bool {
	e.St.ProbeN("c18_executed", m.nExecuted)
	e.St.ProbeN("c18_dropped", m.nDropped)
	e.St.ProbeN("c18_forced", m.nForced)
	e.St.ProbeN("c18_rejected_while_in_progress", m.nRejectedBusy)
	e.St.ProbeN("c18_requests_while_awaiting_execution", m.nReqDuringWait)
	for _, k := range sortedKeysInt(m.dropReasons) {
		e.St.ProbeN("c18_dropped_"+k, m.dropReasons[k])
	}
	return m.nExecuted > 0 && (m.nDropped > 0 || m.nRejectedBusy > 0)
}

func sortedKeysInt(m map[string]int) []string {
	o := make([]string, 0, len(m))
	for k := range m {
		o = append(o, k)
	}
	sort.Strings(o)
	return o
}
