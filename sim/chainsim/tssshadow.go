package chainsim

import (
	"bytes"
	"encoding/hex"
	"fmt"
	"strconv"

	"github.com/bandprotocol/chain/v3/pkg/tss"
	bandtsstypes "github.com/bandprotocol/chain/v3/x/bandtss/types"
	tsstypes "github.com/bandprotocol/chain/v3/x/tss/types"

	"verifsim/world"
)

// TSSShadow follows the TSS state of the chain block by block from the inputs the simulator sent,
// the transaction results and the ordered events, and keeps a per-block journal of the facts the
// C03/C05/C09/C10/C13 monitors check. It never fails a run by itself.

type mAssigned struct {
	MemberID uint64
	Addr     string
	PubD     []byte
	PubE     []byte
	PubNonce []byte
	Binding  []byte
}

func deKey(d, e []byte) string { return hex.EncodeToString(d) + "/" + hex.EncodeToString(e) }

type mAttempt struct {
	N          uint64
	Created    int64
	Expired    int64 // persisted expiry height
	Members    []mAssigned
	Submitted  map[uint64]bool
	Processed  bool // expiry processed (interim data must be gone)
	TimedOut   bool
	InEndBlock bool
}

func (a *mAttempt) Complete() bool { return len(a.Submitted) == len(a.Members) }
func (a *mAttempt) IDs() []uint64 {
	var o []uint64
	for _, m := range a.Members {
		o = append(o, m.MemberID)
	}
	return o
}

const (
	sigWaiting = 0
	sigSuccess = 1
	sigFallen  = 2
)

type mSigning struct {
	ID            uint64
	GroupID       uint64
	GroupPubKey   []byte
	GroupNonce    []byte // of the current attempt
	Message       []byte // full signed message (read from the stored signing when first seen)
	ContentMsg    []byte // content bytes announced by the create event
	Created       int64
	Attempts      []*mAttempt
	Status        int
	SuccessEvents int
	FailedEvents  int
	TerminalAt    int64
	CompletedAt   int64 // block in which the last assigned share was accepted
	EventSig      []byte
	ContentType   string
	Content       string
	Originator    string
	OriginatorType string
	CreatedTimeNs int64
	InEndBlock    bool
}

func (s *mSigning) Cur() *mAttempt {
	if len(s.Attempts) == 0 {
		return nil
	}
	return s.Attempts[len(s.Attempts)-1]
}

type jDE struct {
	Tx        *world.TxRecord
	Meta      *deMeta
	QueueLen  int
	MaxBefore uint64
	MaxAfter  uint64
}
type jSig struct {
	Tx       *world.TxRecord
	Meta     *sigMeta
	Sig      *mSigning
	Waiting  bool
	Att      *mAttempt
	Assigned *mAssigned
	Already  bool
	GroupNonce []byte
}
type jAssign struct {
	Eligible   []uint64 // ids of members active with a queued nonce right before this assignment
	Threshold  uint64
	Seed       []byte
	Sig        *mSigning
	Att        *mAttempt
	HeadOK     []bool
	Reused     []string
	WasDead    []bool
	InEndBlock bool
}
type jEndOp struct {
	Kind   string // "success", "failed", "assign", "deactivate"
	Sid    uint64
	Att    uint64
	Addr   string
	Gid    uint64
	Reason string
	// availability of the signing's group at this point of the end block (for retry decisions)
}
type jTimeout struct {
	Sig       *mSigning
	Att       *mAttempt
	Idle      []string // addresses of assigned members that had not submitted
	Avail     int      // available members of the group when the retry decision is taken
	Threshold uint64
	Retried   bool
	Failed    bool
}

type blockJournal struct {
	Height       int64
	ParamsBefore tsstypes.Params
	ParamsAfter  tsstypes.Params
	DETx         []jDE
	SigTx        []jSig
	Assigns      []jAssign
	EndOps       []jEndOp
	Timeouts     []jTimeout
	Completed    []*mSigning // signings whose last share was accepted in this block
	Deactivated  map[string]bool // "addr/gid" flipped active->inactive in end block (events)
	Problems     []string        // bookkeeping inconsistencies (persisted attempt unknown to the event stream etc.)
	MembershipChanged bool
	ActivatedTx  map[string]bool
	BandBefore   map[string]bool
}

type groupInfo struct {
	ID        uint64
	Threshold uint64
	Members   []tsstypes.Member // id order
	PubKey    []byte
}

type TSSShadow struct {
	height   int64
	inited   bool
	Queues   map[string][]tsstypes.DE
	Consumed map[string]string
	Dead     map[string]bool
	Signings map[uint64]*mSigning
	Fifo     [][2]uint64 // (sid, attempt) in creation order
	Params   tsstypes.Params
	ParamChangedAt int64
	TSSActive map[uint64]map[string]bool // gid -> addr -> active (tss member flag)
	BandMembers map[string]bool // "addr/gid" -> active  (bandtss membership)
	Groups   map[uint64]*groupInfo
	J        *blockJournal
	Pool     *TSSPool
}

func NewTSSShadow(pool *TSSPool) *TSSShadow {
	return &TSSShadow{Queues: map[string][]tsstypes.DE{}, Consumed: map[string]string{}, Dead: map[string]bool{}, Signings: map[uint64]*mSigning{},
		TSSActive: map[uint64]map[string]bool{}, BandMembers: map[string]bool{}, Groups: map[uint64]*groupInfo{}, Pool: pool}
}

func getShadow(e *Env) *TSSShadow {
	return e.Shared["tss.shadow"].(*TSSShadow)
}

func hexAttr(s string) []byte {
	b, _ := hex.DecodeString(s)
	return b
}

func (s *TSSShadow) group(e *Env, gid uint64) *groupInfo {
	if g, ok := s.Groups[gid]; ok {
		return g
	}
	ctx := e.Ctx()
	tk := e.App().TSSKeeper
	g, err := tk.GetGroup(ctx, tss.GroupID(gid))
	if err != nil {
		return nil
	}
	ms, _ := tk.GetGroupMembers(ctx, tss.GroupID(gid))
	gi := &groupInfo{ID: gid, Threshold: g.Threshold, Members: ms, PubKey: g.PubKey}
	if g.Status == tsstypes.GROUP_STATUS_ACTIVE {
		s.Groups[gid] = gi
	}
	return gi
}

func (s *TSSShadow) avail(e *Env, gid uint64) int {
	g := s.group(e, gid)
	if g == nil {
		return 0
	}
	n := 0
	for _, m := range g.Members {
		act, known := s.TSSActive[gid][m.Address]
		if !known {
			act = m.IsActive
		}
		if act && len(s.Queues[m.Address]) > 0 {
			n++
		}
	}
	return n
}

// refreshFlags re-reads membership/activity flags from the committed state (end of block).
func (s *TSSShadow) refreshFlags(e *Env) {
	ctx := e.Ctx()
	tk := e.App().TSSKeeper
	bk := e.App().BandtssKeeper
	s.TSSActive = map[uint64]map[string]bool{}
	for _, m := range tk.GetMembers(ctx) {
		g := uint64(m.GroupID)
		if s.TSSActive[g] == nil {
			s.TSSActive[g] = map[string]bool{}
		}
		s.TSSActive[g][m.Address] = m.IsActive
	}
	s.BandMembers = map[string]bool{}
	for _, m := range bk.GetMembers(ctx) {
		s.BandMembers[fmt.Sprintf("%s/%d", m.Address, m.GroupID)] = m.IsActive
	}
}

// Advance processes one committed block (idempotent per height).
func (s *TSSShadow) Advance(e *Env, blk *world.BlockRecord) {
	if s.height == blk.Height {
		return
	}
	s.height = blk.Height
	ctx := e.Ctx()
	tk := e.App().TSSKeeper
	if !s.inited {
		s.inited = true
		s.Params = e.Shared["tss.genesis.params"].(tsstypes.Params)
		if des, ok := e.Shared["tss.genesis.des"].([]tsstypes.DEGenesis); ok {
			for _, d := range des {
				s.Queues[d.Address] = append(s.Queues[d.Address], d.DE)
			}
		}
		if gm, ok := e.Shared["tss.genesis.flags"].(func(*TSSShadow)); ok {
			gm(s)
		}
	}
	j := &blockJournal{Height: blk.Height, ParamsBefore: s.Params, ParamsAfter: tk.GetParams(ctx), Deactivated: map[string]bool{}, ActivatedTx: map[string]bool{}}
	s.J = j
	if j.ParamsBefore.SigningPeriod != j.ParamsAfter.SigningPeriod || j.ParamsBefore.MaxSigningAttempt != j.ParamsAfter.MaxSigningAttempt {
		s.ParamChangedAt = blk.Height
	}
	bandBefore := map[string]bool{}
	for k, v := range s.BandMembers {
		bandBefore[k] = v
	}

	j.BandBefore = bandBefore
	for _, tx := range blk.Txs {
		switch meta := tx.Intent.Meta.(type) {
		case *deMeta:
			addr := meta.Member.Acc.Addr.String()
			j.DETx = append(j.DETx, jDE{Tx: tx, Meta: meta, QueueLen: len(s.Queues[addr]), MaxBefore: j.ParamsBefore.MaxDESize, MaxAfter: j.ParamsAfter.MaxDESize})
			if tx.OK() {
				s.Queues[addr] = append(s.Queues[addr], meta.DEs...)
			}
		case *resetMeta:
			if tx.OK() {
				addr := meta.Member.Acc.Addr.String()
				for _, d := range s.Queues[addr] {
					s.Dead[deKey(d.PubD, d.PubE)] = true
				}
				s.Queues[addr] = nil
			}
		case *sigMeta:
			js := jSig{Tx: tx, Meta: meta}
			if sg := s.Signings[uint64(meta.Msg.SigningID)]; sg != nil {
				js.Sig = sg
				js.Waiting = sg.Status == sigWaiting
				js.Att = sg.Cur()
				js.GroupNonce = sg.GroupNonce
				if js.Att != nil {
					for i := range js.Att.Members {
						am := &js.Att.Members[i]
						if am.MemberID == uint64(meta.Msg.MemberID) && am.Addr == meta.Msg.Signer {
							js.Assigned = am
						}
					}
					js.Already = js.Att.Submitted[uint64(meta.Msg.MemberID)]
				}
			}
			j.SigTx = append(j.SigTx, js)
			if tx.OK() && js.Att != nil && js.Waiting {
				js.Att.Submitted[uint64(meta.Msg.MemberID)] = true
				if js.Att.Complete() && js.Sig.CompletedAt == 0 {
					js.Sig.CompletedAt = blk.Height
					j.Completed = append(j.Completed, js.Sig)
				}
			}
		case *activateMeta:
			if tx.OK() {
				g := uint64(meta.GroupID)
				if s.TSSActive[g] == nil {
					s.TSSActive[g] = map[string]bool{}
				}
				s.TSSActive[g][meta.Member.Acc.Addr.String()] = true
				s.BandMembers[fmt.Sprintf("%s/%d", meta.Member.Acc.Addr.String(), g)] = true
				j.ActivatedTx[fmt.Sprintf("%s/%d", meta.Member.Acc.Addr.String(), g)] = true
			}
		}
		if tx.OK() {
			s.processEvents(e, blk, ParseEvents(tx.Result.Events), false)
		}
	}
	// end block: first determine the attempts that time out in this block (model FIFO semantics are
	// only used to order expectations; the hard timing rules are checked by C10)
	s.processEvents(e, blk, ParseEvents(blk.Resp.Events), true)

	s.Params = j.ParamsAfter
	s.refreshFlags(e)
	// membership change detection (transition executed / members added)
	if len(bandBefore) != len(s.BandMembers) {
		j.MembershipChanged = true
	} else {
		for k := range s.BandMembers {
			if _, ok := bandBefore[k]; !ok {
				j.MembershipChanged = true
			}
		}
	}
	// cross-check the persisted attempts with what the event stream told us
	count := tk.GetSigningCount(ctx)
	for sid := uint64(1); sid <= count; sid++ {
		sg := s.Signings[sid]
		cs, err := tk.GetSigning(ctx, tss.SigningID(sid))
		if err != nil {
			continue
		}
		if sg == nil {
			if cs.CreatedHeight == uint64(blk.Height) || cs.Status == tsstypes.SIGNING_STATUS_WAITING {
				j.Problems = append(j.Problems, fmt.Sprintf("signing %d exists on chain (status %s) but no create/request event was seen", sid, cs.Status))
			}
			continue
		}
		if sg.Message == nil {
			sg.Message = cs.Message
			sg.CreatedTimeNs = cs.CreatedTimestamp.UnixNano()
		}
		if cs.Status != tsstypes.SIGNING_STATUS_WAITING {
			continue
		}
		sa, err := tk.GetSigningAttempt(ctx, cs.ID, cs.CurrentAttempt)
		if err != nil {
			continue
		}
		cur := sg.Cur()
		if cur == nil || cur.N != sa.Attempt || len(cur.Members) != len(sa.AssignedMembers) {
			j.Problems = append(j.Problems, fmt.Sprintf("signing %d attempt %d persisted with %d members; event stream knows attempt %v", sid, sa.Attempt, len(sa.AssignedMembers), cur))
			continue
		}
		for i, am := range sa.AssignedMembers {
			cm := cur.Members[i]
			if cm.Addr != am.Address || !bytes.Equal(cm.PubD, am.PubD) || !bytes.Equal(cm.PubE, am.PubE) || cm.MemberID != uint64(am.MemberID) {
				j.Problems = append(j.Problems, fmt.Sprintf("signing %d attempt %d member %d: persisted assignment differs from request_signature event", sid, sa.Attempt, am.MemberID))
			}
		}
		if cur.Expired == 0 {
			cur.Expired = int64(sa.ExpiredHeight)
		}
	}
}

func (s *TSSShadow) processEvents(e *Env, blk *world.BlockRecord, evs []Ev, endBlock bool) {
	j := s.J
	for _, ev := range evs {
		switch ev.Type {
		case tsstypes.EventTypeCreateSigning:
			sid := ev.U64(tsstypes.AttributeKeySigningID)
			sg := &mSigning{ID: sid, GroupID: ev.U64(tsstypes.AttributeKeyGroupID), ContentMsg: hexAttr(ev.Get(tsstypes.AttributeKeyMessage)), Created: blk.Height,
				ContentType: ev.Get(tsstypes.AttributeKeyContentType), Content: ev.Get(tsstypes.AttributeKeyContent),
				Originator: ev.Get(tsstypes.AttributeKeyOriginator), OriginatorType: ev.Get(tsstypes.AttributeKeyOriginatorType),
				CreatedTimeNs: blk.Time.UnixNano(), InEndBlock: endBlock}
			if g := s.group(e, sg.GroupID); g != nil {
				sg.GroupPubKey = g.PubKey
			}
			s.Signings[sid] = sg
		case tsstypes.EventTypeRequestSignature:
			sid := ev.U64(tsstypes.AttributeKeySigningID)
			sg := s.Signings[sid]
			if sg == nil {
				j.Problems = append(j.Problems, fmt.Sprintf("request_signature event for unknown signing %d", sid))
				continue
			}
			att := &mAttempt{N: ev.U64(tsstypes.AttributeKeyAttempt), Created: blk.Height, Submitted: map[uint64]bool{}, InEndBlock: endBlock}
			if prev := sg.Cur(); prev != nil && endBlock {
				// a retry: the previous attempt timed out; record the decision inputs before any nonce is popped
				prev.TimedOut = true
				jt := jTimeout{Sig: sg, Att: prev, Idle: idleOf(prev), Avail: s.avail(e, sg.GroupID), Retried: true}
				if g := s.group(e, sg.GroupID); g != nil {
					jt.Threshold = g.Threshold
				}
				j.Timeouts = append(j.Timeouts, jt)
			}
			sg.GroupNonce = hexAttr(ev.Get(tsstypes.AttributeKeyGroupPubNonce))
			ids := ev.Attrs[tsstypes.AttributeKeyMemberID]
			ja := jAssign{Sig: sg, Att: att, InEndBlock: endBlock, Eligible: s.eligible(e, sg.GroupID)}
			if g := s.group(e, sg.GroupID); g != nil {
				ja.Threshold = g.Threshold
			}
			for i := range ids {
				mid, _ := strconv.ParseUint(ids[i], 10, 64)
				am := mAssigned{MemberID: mid, Addr: ev.Attrs[tsstypes.AttributeKeyAddress][i], PubD: hexAttr(ev.Attrs[tsstypes.AttributeKeyPubD][i]),
					PubE: hexAttr(ev.Attrs[tsstypes.AttributeKeyPubE][i]), PubNonce: hexAttr(ev.Attrs[tsstypes.AttributeKeyPubNonce][i]),
					Binding: hexAttr(ev.Attrs[tsstypes.AttributeKeyBindingFactor][i])}
				att.Members = append(att.Members, am)
				q := s.Queues[am.Addr]
				ok := len(q) > 0 && bytes.Equal(q[0].PubD, am.PubD) && bytes.Equal(q[0].PubE, am.PubE)
				ja.HeadOK = append(ja.HeadOK, ok)
				k := deKey(am.PubD, am.PubE)
				ja.Reused = append(ja.Reused, s.Consumed[k])
				ja.WasDead = append(ja.WasDead, s.Dead[k])
				s.Consumed[k] = fmt.Sprintf("signing %d attempt %d", sid, att.N)
				if ok {
					s.Queues[am.Addr] = q[1:]
				} else {
					// resynchronise the model queue so that one defect is reported once
					for qi := range q {
						if bytes.Equal(q[qi].PubD, am.PubD) && bytes.Equal(q[qi].PubE, am.PubE) {
							s.Queues[am.Addr] = append(append([]tsstypes.DE{}, q[:qi]...), q[qi+1:]...)
							break
						}
					}
				}
			}
			sg.Attempts = append(sg.Attempts, att)
			s.Fifo = append(s.Fifo, [2]uint64{sid, att.N})
			j.Assigns = append(j.Assigns, ja)
			if endBlock {
				j.EndOps = append(j.EndOps, jEndOp{Kind: "assign", Sid: sid, Att: att.N, Gid: sg.GroupID})
			}
		case tsstypes.EventTypeSigningSuccess:
			sid := ev.U64(tsstypes.AttributeKeySigningID)
			if sg := s.Signings[sid]; sg != nil {
				sg.SuccessEvents++
				sg.Status = sigSuccess
				sg.TerminalAt = blk.Height
				sg.EventSig = hexAttr(ev.Get(tsstypes.AttributeKeySignature))
			}
			j.EndOps = append(j.EndOps, jEndOp{Kind: "success", Sid: sid})
		case tsstypes.EventTypeSigningFailed:
			sid := ev.U64(tsstypes.AttributeKeySigningID)
			if sg := s.Signings[sid]; sg != nil {
				sg.FailedEvents++
				sg.Status = sigFallen
				sg.TerminalAt = blk.Height
				if c := sg.Cur(); c != nil {
					c.TimedOut = true
					jt := jTimeout{Sig: sg, Att: c, Idle: idleOf(c), Avail: s.avail(e, sg.GroupID), Failed: true}
					if g := s.group(e, sg.GroupID); g != nil {
						jt.Threshold = g.Threshold
					}
					j.Timeouts = append(j.Timeouts, jt)
				}
			}
			j.EndOps = append(j.EndOps, jEndOp{Kind: "failed", Sid: sid, Reason: ev.Get(tsstypes.AttributeKeyReason)})
		case bandtsstypes.EventTypeInactiveStatus:
			if endBlock {
				addr := ev.Get(bandtsstypes.AttributeKeyAddress)
				gid := ev.U64(bandtsstypes.AttributeKeyGroupID)
				j.Deactivated[fmt.Sprintf("%s/%d", addr, gid)] = true
				if s.TSSActive[gid] == nil {
					s.TSSActive[gid] = map[string]bool{}
				}
				s.TSSActive[gid][addr] = false
				j.EndOps = append(j.EndOps, jEndOp{Kind: "deactivate", Addr: addr, Gid: gid})
			}
		}
	}
}

func idleOf(a *mAttempt) []string {
	var o []string
	for _, m := range a.Members {
		if !a.Submitted[m.MemberID] {
			o = append(o, m.Addr)
		}
	}
	return o
}

// eligible lists, in ascending member id, the group members that are active and hold a queued nonce in the model.
func (s *TSSShadow) eligible(e *Env, gid uint64) []uint64 {
	g := s.group(e, gid)
	if g == nil {
		return nil
	}
	var out []uint64
	for _, m := range g.Members {
		act, known := s.TSSActive[gid][m.Address]
		if !known {
			act = m.IsActive
		}
		if act && len(s.Queues[m.Address]) > 0 {
			out = append(out, uint64(m.ID))
		}
	}
	return out
}
