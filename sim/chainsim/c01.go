package chainsim

import (
	"bytes"
	"fmt"

	"github.com/bandprotocol/chain/v3/pkg/obi"
	"github.com/bandprotocol/chain/v3/testing/testdata"
	oracletypes "github.com/bandprotocol/chain/v3/x/oracle/types"

	"verifsim/world"
)

// infraReject: the transaction was rejected by the simulator's own fault (tight gas limit, duplicate
// bytes -> sequence mismatch). Such a tx must have no effect whatever its message says.
func infraReject(tx *world.TxRecord) bool {
	r := tx.Result
	return r.Codespace == "sdk" && (r.Code == 11 || r.Code == 32)
}

type mReport struct {
	Val string
	Raw []oracletypes.RawReport
}

type mRequest struct {
	ID       uint64
	Msg      *oracletypes.MsgRequestData
	Height   int64
	TimeUnix int64
	Chosen   []string
	RawEIDs  map[oracletypes.ExternalID]bool
	Reports  []mReport
	Reported map[string]bool
	Resolved bool // model: result must exist
	Expected *oracletypes.Result
	Cleaned  bool // expiry processed: request+reports deleted
	ResultBz []byte
	ResolveEvents int
	ByMinCount bool
}

// C01 is the reference model of the oracle request life cycle.
type C01 struct {
	reqs        map[uint64]*mRequest
	count       uint64
	lastExpired uint64
	params      oracletypes.Params
	pending     []uint64
	nResolvedByMin, nExpired, nRejected, nAccepted int
	lowGas map[uint64]bool
}

func NewC01() *C01 { return &C01{reqs: map[uint64]*mRequest{}, lowGas: map[uint64]bool{}} }

func (m *C01) Prop() string { return "C01" }

func (m *C01) predictReport(msg *oracletypes.MsgReportData) (bool, string) {
	if len(msg.RawReports) == 0 {
		return false, "empty"
	}
	seen := map[oracletypes.ExternalID]bool{}
	for _, r := range msg.RawReports {
		if seen[r.ExternalID] {
			return false, "dup_eid"
		}
		seen[r.ExternalID] = true
	}
	for _, r := range msg.RawReports {
		if uint64(len(r.Data)) > m.params.MaxReportDataSize {
			return false, "oversize"
		}
	}
	id := uint64(msg.RequestID)
	if id <= m.lastExpired {
		return false, "expired"
	}
	rq := m.reqs[id]
	if rq == nil {
		return false, "no_request"
	}
	chosen := false
	for _, c := range rq.Chosen {
		if c == msg.Validator {
			chosen = true
		}
	}
	if !chosen {
		return false, "not_chosen"
	}
	if rq.Reported[msg.Validator] {
		return false, "already_reported"
	}
	if len(msg.RawReports) != len(rq.RawEIDs) {
		return false, "wrong_size"
	}
	for _, r := range msg.RawReports {
		if !rq.RawEIDs[r.ExternalID] {
			return false, "wrong_eid"
		}
	}
	return true, "ok"
}

func (m *C01) expectedResult(rq *mRequest, status oracletypes.ResolveStatus, result []byte, now int64) *oracletypes.Result {
	r := oracletypes.NewResult(rq.Msg.ClientID, rq.Msg.OracleScriptID, rq.Msg.Calldata, uint64(len(rq.Chosen)), rq.Msg.MinCount,
		oracletypes.RequestID(rq.ID), uint64(len(rq.Reports)), rq.TimeUnix, now, status, result)
	return &r
}

func (m *C01) evalScript(rq *mRequest) (oracletypes.ResolveStatus, []byte) {
	switch int(rq.Msg.OracleScriptID) {
	case scriptSimple, scriptDesc:
		return oracletypes.RESOLVE_STATUS_SUCCESS, []byte("test")
	case scriptEmpty:
		return oracletypes.RESOLVE_STATUS_SUCCESS, []byte{}
	case scriptProbe:
		// asking about a validator index outside 0..ask_count-1 is an error that ends the script: FAILURE, never a halt
		d, ok := probeDelta(rq.Msg.Calldata)
		idx := int64(len(rq.Chosen)) + d
		if ok && idx >= 0 && idx < int64(len(rq.Chosen)) {
			return oracletypes.RESOLVE_STATUS_SUCCESS, []byte("test")
		}
		return oracletypes.RESOLVE_STATUS_FAILURE, []byte{}
	case scriptEcho:
		var in testdata.Wasm4Input
		obi.MustDecode(rq.Msg.Calldata, &in)
		byVal := map[string]map[oracletypes.ExternalID]oracletypes.RawReport{}
		for _, rep := range rq.Reports {
			mm := map[oracletypes.ExternalID]oracletypes.RawReport{}
			for _, r := range rep.Raw {
				mm[r.ExternalID] = r
			}
			byVal[rep.Val] = mm
		}
		ret := ""
		for idx := range in.IDs {
			for _, val := range rq.Chosen {
				if vr, ok := byVal[val]; ok {
					if r, ok := vr[oracletypes.ExternalID(idx)]; ok { // Wasm4 ignores the exit code
						ret += string(r.Data)
					}
				}
			}
		}
		return oracletypes.RESOLVE_STATUS_SUCCESS, obi.MustEncode(testdata.Wasm4Output{Ret: ret})
	default:
		return oracletypes.RESOLVE_STATUS_FAILURE, []byte{}
	}
}

func (m *C01) OnBlock(e *Env, blk *world.BlockRecord) {
	ctx := e.Ctx()
	k := e.App().OracleKeeper
	if m.params.MaxAskCount == 0 { // first block: genesis params
		m.params = e.Shared["oracle.genesis.params"].(oracletypes.Params)
	}
	paramsAfter := k.GetParams(ctx)
	now := blk.Time.Unix()

	for _, tx := range blk.Txs {
		switch meta := tx.Intent.Meta.(type) {
		case *reqMeta:
			if !tx.OK() {
				e.St.Trace("req-rejected")
				continue
			}
			m.count++
			id := m.count
			evs := EventsOfType(ParseEvents(tx.Result.Events), oracletypes.EventTypeRequest)
			if len(evs) != 1 || evs[0].U64(oracletypes.AttributeKeyID) != id {
				e.Fail("C01", "request_id_sequence", "", "accepted request expected id %d, events %v", id, evs)
				return
			}
			stored, err := k.GetRequest(ctx, oracletypes.RequestID(id))
			if err != nil {
				e.Fail("C01", "request_not_stored", "", "accepted request %d is not in the store at the end of its block", id)
				return
			}
			rq := &mRequest{ID: id, Msg: meta.Msg, Height: blk.Height, TimeUnix: now, Chosen: stored.RequestedValidators,
				RawEIDs: map[oracletypes.ExternalID]bool{}, Reported: map[string]bool{}}
			for _, rr := range stored.RawRequests {
				rq.RawEIDs[rr.ExternalID] = true
			}
			if uint64(len(rq.Chosen)) != meta.Msg.AskCount {
				e.Fail("C01", "ask_count", "", "request %d has %d chosen validators, ask_count %d", id, len(rq.Chosen), meta.Msg.AskCount)
				return
			}
			m.reqs[id] = rq
			e.St.Trace(fmt.Sprintf("req(a%d,m%d,s%d)", meta.Msg.AskCount, meta.Msg.MinCount, meta.Msg.OracleScriptID))
		case *repMeta:
			if infraReject(tx) {
				e.St.Probe("report_infra_reject")
				continue
			}
			want, why := m.predictReport(meta.Msg)
			if want != tx.OK() {
				e.Fail("C01", "report_acceptance", why, "report for request %d by %s (%s): model says accept=%v (%s), chain code=%d log=%q",
					meta.Msg.RequestID, meta.Msg.Validator, meta.Kind, want, why, tx.Result.Code, tx.Result.Log)
				return
			}
			if !want {
				m.nRejected++
				e.St.Trace("rep-rej:" + why)
				e.St.Covered("c01.reject." + why)
				continue
			}
			m.nAccepted++
			rq := m.reqs[uint64(meta.Msg.RequestID)]
			rq.Reports = append(rq.Reports, mReport{Val: meta.Msg.Validator, Raw: meta.Msg.RawReports})
			rq.Reported[meta.Msg.Validator] = true
			if !rq.Resolved && uint64(len(rq.Reports)) == rq.Msg.MinCount {
				m.pending = append(m.pending, rq.ID)
			}
			if rq.Resolved {
				e.St.Trace("rep-late")
				e.St.Probe("report_after_resolve_accepted")
			} else {
				e.St.Trace("rep-ok")
			}
		}
	}

	// end block: resolve pending, then expire
	resolvedNow := map[uint64]bool{}
	for _, id := range m.pending {
		rq := m.reqs[id]
		st, res := m.evalScript(rq)
		rq.Expected = m.expectedResult(rq, st, res, now)
		rq.Resolved = true
		rq.ByMinCount = true
		resolvedNow[id] = true
		m.nResolvedByMin++
		e.St.Trace(fmt.Sprintf("resolve(%d,ans%d)", st, len(rq.Reports)))
		e.St.Covered(fmt.Sprintf("c01.resolve.s%d.ask%d.min%d.ans%d", st, len(rq.Chosen), rq.Msg.MinCount, len(rq.Reports)))
	}
	m.pending = nil

	// expiry with the parameter in force; when it changed in this very block accept either value
	expire := func(expCount int64, apply bool) (last uint64, expired []uint64) {
		last = m.lastExpired
		for id := m.lastExpired + 1; id <= m.count; id++ {
			rq := m.reqs[id]
			if rq.Height+expCount > blk.Height {
				break
			}
			expired = append(expired, id)
			last = id
		}
		return
	}
	expOld := int64(m.params.ExpirationBlockCount)
	expNew := int64(paramsAfter.ExpirationBlockCount)
	chainLast := k.GetRequestLastExpired(ctx)
	// the expiration window in force is the one AFTER this block's governance execution: parameters change only through a
	// proposal executed by the gov end blocker, which runs before the oracle end blocker
	lastB, expB := expire(expNew, false)
	var expired []uint64
	if uint64(chainLast) != lastB {
		e.Fail("C01", "expiry_height", "", "last expired request on chain %d; model %d (expiration_block_count %d, before this block %d) at height %d", chainLast, lastB, expNew, expOld, blk.Height)
		return
	}
	expired = expB
	if expNew != expOld {
		e.St.Probe("expiry_param_changed_in_block")
	}
	for _, id := range expired {
		rq := m.reqs[id]
		if !rq.Resolved {
			rq.Expected = m.expectedResult(rq, oracletypes.RESOLVE_STATUS_EXPIRED, []byte{}, now)
			rq.Resolved = true
			resolvedNow[id] = true
			m.nExpired++
			e.St.Trace(fmt.Sprintf("expire(ans%d)", len(rq.Reports)))
			e.St.Covered(fmt.Sprintf("c01.expired.ask%d.min%d.ans%d", len(rq.Chosen), rq.Msg.MinCount, len(rq.Reports)))
		}
		rq.Cleaned = true
		m.lastExpired = id
	}
	m.params = paramsAfter

	// resolve events of this block
	evCount := map[uint64]int{}
	for _, ev := range EventsOfType(ParseEvents(blk.Resp.Events), oracletypes.EventTypeResolve) {
		evCount[ev.U64(oracletypes.AttributeKeyID)]++
	}
	for _, tx := range blk.Txs {
		for _, ev := range EventsOfType(ParseEvents(tx.Result.Events), oracletypes.EventTypeResolve) {
			evCount[ev.U64(oracletypes.AttributeKeyID)]++
		}
	}
	for _, id := range sortedU64(keysU64(evCount)) {
		if rq := m.reqs[id]; rq != nil {
			rq.ResolveEvents += evCount[id]
		}
		want := 0
		if resolvedNow[id] {
			want = 1
		}
		if evCount[id] != want {
			e.Fail("C01", "resolve_exactly_once", "", "request %d: %d resolve events in block %d, model expects %d", id, evCount[id], blk.Height, want)
			return
		}
	}
	for id := range resolvedNow {
		if evCount[id] != 1 {
			e.Fail("C01", "resolve_exactly_once", "", "request %d must resolve in block %d but %d resolve events seen", id, blk.Height, evCount[id])
			return
		}
	}

	// compare with the chain
	if got := k.GetRequestCount(ctx); got != m.count {
		e.Fail("C01", "request_count", "", "chain request count %d, model %d", got, m.count)
		return
	}
	for _, id := range sortedU64(keysU64Req(m.reqs)) {
		rq := m.reqs[id]
		has := k.HasResult(ctx, oracletypes.RequestID(id))
		if has != rq.Resolved {
			inv := "result_missing"
			if has {
				inv = "unexpected_result"
			}
			e.Fail("C01", inv, "", "request %d (height %d, ask %d, min %d, %d reports): chain has result=%v, model=%v at height %d",
				id, rq.Height, len(rq.Chosen), rq.Msg.MinCount, len(rq.Reports), has, rq.Resolved, blk.Height)
			return
		}
		if has {
			res := k.MustGetResult(ctx, oracletypes.RequestID(id))
			bz := e.App().AppCodec().MustMarshal(&res)
			if rq.ResultBz == nil {
				exp := rq.Expected
				okRes := bytes.Equal(res.Result, exp.Result) || (len(res.Result) == 0 && len(exp.Result) == 0)
				if res.ClientID != exp.ClientID || res.OracleScriptID != exp.OracleScriptID || !bytes.Equal(res.Calldata, exp.Calldata) ||
					res.AskCount != exp.AskCount || res.MinCount != exp.MinCount || res.RequestID != exp.RequestID || res.AnsCount != exp.AnsCount ||
					res.RequestTime != exp.RequestTime || res.ResolveTime != exp.ResolveTime || res.ResolveStatus != exp.ResolveStatus || !okRes {
					e.Fail("C01", "result_content", fmt.Sprintf("status%d", exp.ResolveStatus), "request %d result mismatch:\n chain %s\n model %s", id, res.String(), exp.String())
					return
				}
				rq.ResultBz = bz
			} else if !bytes.Equal(rq.ResultBz, bz) {
				e.Fail("C01", "result_immutable", "", "request %d: stored result changed at height %d: now %s", id, blk.Height, res.String())
				return
			}
		}
		// request + reports
		_, err := k.GetRequest(ctx, oracletypes.RequestID(id))
		if (err == nil) == rq.Cleaned {
			e.Fail("C01", "request_cleanup", "", "request %d exists=%v, model cleaned=%v at height %d", id, err == nil, rq.Cleaned, blk.Height)
			return
		}
		reps := k.GetReports(ctx, oracletypes.RequestID(id))
		if rq.Cleaned {
			if len(reps) != 0 {
				e.Fail("C01", "reports_cleanup", "", "request %d expired but %d reports remain", id, len(reps))
				return
			}
			continue
		}
		if len(reps) != len(rq.Reports) {
			e.Fail("C01", "reports_stored", "", "request %d: chain stores %d reports, model accepted %d", id, len(reps), len(rq.Reports))
			return
		}
		for _, r := range reps {
			if !rq.Reported[r.Validator] {
				e.Fail("C01", "reports_stored", "", "request %d: stored report from %s not accepted in model", id, r.Validator)
				return
			}
		}
	}
	// drop old cleaned requests from the per-block comparison but keep result immutability for a sample
	if len(m.reqs) > 40 {
		for _, id := range sortedU64(keysU64Req(m.reqs)) {
			if len(m.reqs) <= 30 {
				break
			}
			if m.reqs[id].Cleaned && m.reqs[id].ResultBz != nil {
				delete(m.reqs, id)
			}
		}
	}
}

func keysU64(m map[uint64]int) map[uint64]bool {
	o := map[uint64]bool{}
	for k := range m {
		o[k] = true
	}
	return o
}
func keysU64Req(m map[uint64]*mRequest) map[uint64]bool {
	o := map[uint64]bool{}
	for k := range m {
		o[k] = true
	}
	return o
}

func (m *C01) Pending(e *Env) bool {
	for _, rq := range m.reqs {
		if !rq.Cleaned {
			return true
		}
	}
	return false
}

func (m *C01) Finish(e *Env) {
	if !e.Draining {
		return
	}
	for _, id := range sortedU64(keysU64Req(m.reqs)) {
		rq := m.reqs[id]
		if !rq.Resolved {
			e.Fail("C01", "liveness_result", "", "request %d (height %d) still has no result at height %d after faults stopped", id, rq.Height, e.W.Height)
			return
		}
	}
}

func (m *C01) NonTrivial(e *Env) bool {
	e.St.ProbeN("c01_resolved_by_min_count", m.nResolvedByMin)
	e.St.ProbeN("c01_expired", m.nExpired)
	e.St.ProbeN("c01_report_rejected", m.nRejected)
	e.St.ProbeN("c01_report_accepted", m.nAccepted)
	return m.nResolvedByMin > 0 && m.nExpired > 0 && m.nRejected > 0
}
