package chainsim

import (
	"fmt"
	"math/big"
	"sort"

	storetypes "cosmossdk.io/store/types"

	feedstypes "github.com/bandprotocol/chain/v3/x/feeds/types"
	restaketypes "github.com/bandprotocol/chain/v3/x/restake/types"

	"verifsim/world"
)

// C07 — votes never exceed voter power; signal totals and the current feed list follow the votes.
type C07 struct {
	lastFeeds   string
	nRejected, nRevote, nFeedUpdates, nCutoff, nAccepted int
	everVoted   map[string]bool
}

func (m *C07) Prop() string { return "C07" }

func (m *C07) OnBlock(e *Env, blk *world.BlockRecord) {
	sh := getStake(e)
	sh.Advance(e, blk)
	ctx := e.Ctx()
	fk := e.App().FeedsKeeper
	rk := e.App().RestakeKeeper
	if m.everVoted == nil {
		m.everVoted = map[string]bool{}
	}
	// "locked against withdrawal under the feeds vault": no accepted undelegation or unstake takes the voter's total power below
	// what its standing vote locks at that moment
	for _, j := range sh.JOps {
		if infraReject(j.Tx) || !j.Tx.OK() || (j.Meta.Kind != "undelegate" && j.Meta.Kind != "unstake") {
			continue
		}
		if j.Possible && j.FeedsLock.IsPositive() && j.PowerPost.LT(j.FeedsLock) {
			e.Fail("C07", "voted_power_withdrawn", j.Meta.Kind, "%s by %s (aim %s) accepted: total power %s -> %s, but the standing vote locks %s under the feeds vault",
				j.Meta.Kind, j.Meta.Addr.Name, j.Meta.Aim, j.PowerPre, j.PowerPost, j.FeedsLock)
			return
		}
	}
	for _, j := range sh.JVotes {
		if infraReject(j.Tx) {
			continue
		}
		n := uint64(len(j.Meta.Msg.Signals))
		fits := n <= j.MaxFeedsBefore || n <= j.MaxFeedsAfter
		over := j.TrueSum.Cmp(j.Power.BigInt()) > 0
		if j.Tx.OK() {
			if over {
				trig := ""
				if !j.TrueSum.IsInt64() {
					trig = "int64-wrap"
				}
				e.Fail("C07", "vote_sum_exceeds_power", trig, "vote by %s accepted: signal powers sum to %s but the voter's total power is %s (signals %s)", j.Meta.Msg.Voter, j.TrueSum, j.Power, fmtSignals(j.Meta.Msg.Signals))
				return
			}
			if !j.Valid || !fits {
				e.Fail("C07", "invalid_vote_accepted", j.Why, "vote of kind %s accepted (valid=%v %s, %d signals, max %d)", j.Meta.Kind, j.Valid, j.Why, n, j.MaxFeedsBefore)
				return
			}
			m.nAccepted++
			if m.everVoted[j.Meta.Msg.Voter] && n >= 2 {
				m.nRevote++
			}
			m.everVoted[j.Meta.Msg.Voter] = true
			e.St.Trace(fmt.Sprintf("vote-ok(%s,n%d)", j.Meta.Kind, n))
			e.St.Covered("c07.vote.accepted." + j.Meta.Kind)
		} else {
			m.nRejected++
			if j.Valid && fits && !over && j.VaultOK {
				e.St.Probe("c07_valid_vote_rejected:" + j.Tx.Result.Codespace + fmt.Sprint(j.Tx.Result.Code))
			}
			e.St.Trace(fmt.Sprintf("vote-rej(%s)", j.Meta.Kind))
			e.St.Covered("c07.vote.rejected." + j.Meta.Kind)
		}
	}
	// stored votes, locks and signal totals follow the standing votes
	totals := map[string]*big.Int{}
	for _, u := range sh.Voters {
		addr := u.Addr.String()
		got := fk.GetVote(ctx, u.Addr)
		if fmtSignals(got) != fmtSignals(sh.Votes[addr]) {
			e.Fail("C07", "stored_vote", "", "%s: stored vote {%s}, model {%s}", u.Name, fmtSignals(got), fmtSignals(sh.Votes[addr]))
			return
		}
		if len(sh.Votes[addr]) > 0 || m.everVoted[addr] {
			lock, found := rk.GetLock(ctx, u.Addr, feedstypes.ModuleName)
			ts := trueSum(sh.Votes[addr])
			if !found || lock.Power.BigInt().Cmp(ts) != 0 {
				e.Fail("C07", "feeds_lock", "", "%s: lock under the feeds vault is %v (found=%v), standing vote sums to %s", u.Name, lock.Power, found, ts)
				return
			}
			// "locked against withdrawal": withdrawals consult the by-power index, so the lock must be in it with that power
			store := ctx.KVStore(e.App().GetKey(restaketypes.StoreKey))
			it := storetypes.KVStorePrefixIterator(store, restaketypes.LocksByPowerIndexKey(u.Addr))
			indexed := false
			for ; it.Valid(); it.Next() {
				_, p := restaketypes.SplitLockByPowerIndexKey(it.Key())
				if string(it.Value()) == feedstypes.ModuleName && p.Equal(lock.Power) {
					indexed = true
				}
			}
			it.Close()
			if !indexed {
				e.Fail("C07", "feeds_lock_not_effective", "", "%s: the feeds-vault lock of %s exists but is missing from the by-power index that withdrawals are checked against", u.Name, lock.Power)
				return
			}
		}
		for _, s := range sh.Votes[addr] {
			if totals[s.ID] == nil {
				totals[s.ID] = new(big.Int)
			}
			totals[s.ID].Add(totals[s.ID], big.NewInt(s.Power))
		}
	}
	ids := make([]string, 0, len(totals))
	for id := range totals {
		ids = append(ids, id)
	}
	sort.Strings(ids)
	for _, id := range ids {
		st, err := fk.GetSignalTotalPower(ctx, id)
		if err != nil || big.NewInt(st.Power).Cmp(totals[id]) != 0 {
			e.Fail("C07", "signal_total", "", "signal %s: total power on chain %d (err %v), sum of standing votes %s", id, st.Power, err, totals[id])
			return
		}
	}
	// by-power index: one entry per signal with a non-zero total, ordered by power
	idx := fk.GetSignalTotalPowersByPower(ctx, 10000)
	seen := map[string]bool{}
	for i, s := range idx {
		if seen[s.ID] {
			e.Fail("C07", "signal_power_index", "duplicate", "signal %s appears more than once in the by-power index", s.ID)
			return
		}
		seen[s.ID] = true
		if totals[s.ID] == nil {
			e.Fail("C07", "signal_power_index", "stale", "signal %s is in the by-power index but has no standing vote", s.ID)
			return
		}
		if i > 0 && idx[i-1].Power < s.Power {
			e.Fail("C07", "signal_power_index", "order", "by-power index not in descending power order at %s", s.ID)
			return
		}
	}
	if len(idx) != len(totals) {
		e.Fail("C07", "signal_power_index", "missing", "by-power index has %d entries, %d signals have standing votes", len(idx), len(totals))
		return
	}
	// current feeds
	p := fk.GetParams(ctx)
	cf := fk.GetCurrentFeeds(ctx)
	desc := fmt.Sprint(cf.Feeds)
	if blk.Height%p.CurrentFeedsUpdateInterval == 0 {
		m.nFeedUpdates++
		if cf.LastUpdateBlock != blk.Height || cf.LastUpdateTimestamp != blk.Time.Unix() {
			e.Fail("C07", "feed_update_missed", "", "height %d is an update block (interval %d) but the feed list says last update block %d", blk.Height, p.CurrentFeedsUpdateInterval, cf.LastUpdateBlock)
			return
		}
		var eligible []string
		for _, id := range ids {
			if totals[id].Cmp(big.NewInt(p.PowerStepThreshold)) >= 0 {
				eligible = append(eligible, id)
			}
		}
		wantN := len(eligible)
		if uint64(wantN) > p.MaxCurrentFeeds {
			wantN = int(p.MaxCurrentFeeds)
		}
		if len(cf.Feeds) != wantN {
			e.Fail("C07", "feed_list_size", "", "feed list has %d entries; %d signals reach the threshold %d, max_current_feeds %d", len(cf.Feeds), len(eligible), p.PowerStepThreshold, p.MaxCurrentFeeds)
			return
		}
		inc := map[string]bool{}
		minInc := int64(1<<63 - 1)
		for _, f := range cf.Feeds {
			if inc[f.SignalID] {
				e.Fail("C07", "feed_list_duplicate", "", "signal %s twice in the feed list", f.SignalID)
				return
			}
			inc[f.SignalID] = true
			t := totals[f.SignalID]
			if t == nil || t.Cmp(big.NewInt(p.PowerStepThreshold)) < 0 || t.Cmp(big.NewInt(f.Power)) != 0 {
				e.Fail("C07", "feed_not_eligible", "", "feed %s (power %d) but the signal's votes sum to %v, threshold %d", f.SignalID, f.Power, t, p.PowerStepThreshold)
				return
			}
			factor := f.Power / p.PowerStepThreshold
			wantInt := p.MaxInterval / factor
			if wantInt < p.MinInterval {
				wantInt = p.MinInterval
			}
			if f.Interval != wantInt {
				e.Fail("C07", "feed_interval", "", "feed %s power %d: interval %d, expected max(%d, %d/%d) = %d", f.SignalID, f.Power, f.Interval, p.MinInterval, p.MaxInterval, factor, wantInt)
				return
			}
			if f.Power < minInc {
				minInc = f.Power
			}
		}
		for _, id := range eligible {
			if !inc[id] && totals[id].Cmp(big.NewInt(minInc)) > 0 {
				e.Fail("C07", "feed_list_not_top", "", "signal %s (power %s) is excluded although included feeds have power as low as %d", id, totals[id], minInc)
				return
			}
		}
		if len(eligible) > wantN {
			m.nCutoff++
		}
		e.St.Trace(fmt.Sprintf("feeds-update(n%d,elig%d)", len(cf.Feeds), len(eligible)))
		e.St.Covered(fmt.Sprintf("c07.update.n%d.cut=%v", len(cf.Feeds), len(eligible) > wantN))
	} else if m.lastFeeds != "" && desc != m.lastFeeds {
		e.Fail("C07", "feed_list_changed_between_updates", "", "feed list changed at height %d which is not an update block (interval %d)", blk.Height, p.CurrentFeedsUpdateInterval)
		return
	}
	m.lastFeeds = desc
}

func (m *C07) Pending(e *Env) bool { return false }
func (m *C07) Finish(e *Env)       {}
func (m *C07) NonTrivial(e *Env) bool {
	e.St.ProbeN("c07_votes_accepted", m.nAccepted)
	e.St.ProbeN("c07_votes_rejected", m.nRejected)
	e.St.ProbeN("c07_revotes_multi_signal", m.nRevote)
	e.St.ProbeN("c07_feed_updates", m.nFeedUpdates)
	e.St.ProbeN("c07_feed_updates_with_cutoff", m.nCutoff)
	return m.nRevote > 0 && m.nRejected > 0 && m.nFeedUpdates > 0
}
