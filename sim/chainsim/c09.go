package chainsim

import (
	"bytes"
	"encoding/binary"
	"fmt"
	"sort"

	sdk "github.com/cosmos/cosmos-sdk/types"
	stakingtypes "github.com/cosmos/cosmos-sdk/x/staking/types"

	"github.com/bandprotocol/chain/v3/pkg/bandrng"
	oracletypes "github.com/bandprotocol/chain/v3/x/oracle/types"

	"verifsim/ref"
	"verifsim/world"
)

// C09 — committee selection follows the sampling specification on an independently tracked seed.
type C09 struct {
	seed      []byte
	inited    bool
	vals      []valInfo // bonded validators at the start of the block
	active    map[string]bool
	reqCount  uint64
	tryCount  uint64
	nOracle, nSigners, nNontrivial, nTooFew int
	WithTSS   bool
}

type valInfo struct {
	Oper   string
	Addr   []byte
	Tokens uint64
	Power  int64
}

func be64(x uint64) []byte {
	b := make([]byte, 8)
	binary.BigEndian.PutUint64(b, x)
	return b
}

func (m *C09) Prop() string { return "C09" }

func (m *C09) readVals(e *Env) {
	ctx := e.Ctx()
	sk := e.App().StakingKeeper
	all, _ := sk.GetAllValidators(ctx)
	m.vals = nil
	for _, v := range all {
		if v.Status != stakingtypes.Bonded {
			continue
		}
		op, _ := sdk.ValAddressFromBech32(v.OperatorAddress)
		m.vals = append(m.vals, valInfo{Oper: v.OperatorAddress, Addr: op, Tokens: v.Tokens.Uint64(), Power: v.Tokens.Quo(sdk.DefaultPowerReduction).Int64()})
	}
	// staking power index order: consensus power descending, operator address ascending
	sort.SliceStable(m.vals, func(i, j int) bool {
		if m.vals[i].Power != m.vals[j].Power {
			return m.vals[i].Power > m.vals[j].Power
		}
		return bytes.Compare(m.vals[i].Addr, m.vals[j].Addr) < 0
	})
}

func (m *C09) OnBlock(e *Env, blk *world.BlockRecord) {
	if !m.inited {
		m.inited = true
		m.seed = make([]byte, 32)
		m.active = map[string]bool{}
		for _, v := range e.W.Vals {
			m.vals = append(m.vals, valInfo{Oper: v.Val.String(), Addr: v.Val, Tokens: v.Tokens.Uint64(), Power: v.Tokens.Quo(sdk.DefaultPowerReduction).Int64()})
		}
		sort.SliceStable(m.vals, func(i, j int) bool {
			if m.vals[i].Power != m.vals[j].Power {
				return m.vals[i].Power > m.vals[j].Power
			}
			return bytes.Compare(m.vals[i].Addr, m.vals[j].Addr) < 0
		})
		if p, ok := e.Shared["oracle.genesis.params"].(oracletypes.Params); ok {
			m.tryCount = p.SamplingTryCount
		} else {
			m.tryCount = oracletypes.DefaultParams().SamplingTryCount
		}
	}
	// rolling seed: drop the oldest byte, append the first byte of this block's hash (begin block)
	m.seed = append(append([]byte{}, m.seed[1:]...), blk.Req.Hash[0])
	ctx := e.Ctx()
	if got := e.App().RollingseedKeeper.GetRollingSeed(ctx); !bytes.Equal(got, m.seed) {
		e.Fail("C09", "rolling_seed", "", "rolling seed on chain %X, recomputed from block hashes %X at height %d", got, m.seed, blk.Height)
		return
	}
	chainID := []byte(e.W.Cfg.ChainID)
	stakingTouched := false
	for _, tx := range blk.Txs {
		for _, msg := range tx.Intent.Msgs {
			switch msg.(type) {
			case *stakingtypes.MsgDelegate, *stakingtypes.MsgUndelegate, *stakingtypes.MsgBeginRedelegate, *stakingtypes.MsgCancelUnbondingDelegation, *stakingtypes.MsgCreateValidator:
				if tx.OK() {
					stakingTouched = true
				}
			case *oracletypes.MsgActivate:
				if tx.OK() {
					m.active[msg.(*oracletypes.MsgActivate).Validator] = true
				}
			}
		}
		rq, ok := tx.Intent.Meta.(*reqMeta)
		if !ok || infraReject(tx) {
			continue
		}
		var weights []uint64
		var opers []string
		for _, v := range m.vals {
			if m.active[v.Oper] {
				weights = append(weights, v.Tokens)
				opers = append(opers, v.Oper)
			}
		}
		ask := int(rq.Msg.AskCount)
		if stakingTouched {
			e.St.Probe("c09_skipped_staking_changed_in_block")
			if tx.OK() {
				m.reqCount++
			}
			continue
		}
		if len(opers) < ask {
			m.nTooFew++
			if tx.OK() {
				e.Fail("C09", "too_few_eligible_accepted", "", "request with ask_count %d accepted although only %d validators are bonded and oracle-active", ask, len(opers))
				return
			}
			e.St.Trace("oracle-too-few")
			continue
		}
		if !tx.OK() {
			continue
		}
		m.reqCount++
		var stored oracletypes.Request
		var err error
		stored, err = e.App().OracleKeeper.GetRequest(ctx, oracletypes.RequestID(m.reqCount))
		if err != nil {
			e.Fail("C09", "request_missing", "", "accepted request %d not stored", m.reqCount)
			return
		}
		// exactly ask_count participants, each of them eligible at that moment (stated directly, independent of the sampler)
		elig := map[string]bool{}
		for _, o := range opers {
			elig[o] = true
		}
		if len(stored.RequestedValidators) != ask {
			e.Fail("C09", "oracle_committee_size", "", "request %d asked for %d validators, %d were chosen: %q (tries %d)", m.reqCount, ask, len(stored.RequestedValidators), stored.RequestedValidators, m.tryCount)
			return
		}
		for _, v := range stored.RequestedValidators {
			if !elig[v] {
				e.Fail("C09", "oracle_committee_not_eligible", "", "request %d: chosen validator %q is not bonded and oracle-active (eligible %v, tries %d)", m.reqCount, v, opers, m.tryCount)
				return
			}
		}
		tries := 0
		if m.tryCount > 1<<20 {
			// the specification runs that many rounds; no harness can: such a value is covered by the checks above and by the stall watchdog
			e.St.Probe("c09_differential_skipped_huge_try_count")
			m.nOracle++
			continue
		}
		tries = int(m.tryCount)
		d := ref.NewHMACDRBG(m.seed, be64(m.reqCount), chainID)
		idx := ref.ChooseBestOfN(d, weights, ask, tries)
		var want []string
		for _, i := range idx {
			want = append(want, opers[i])
		}
		if fmt.Sprint(want) != fmt.Sprint(stored.RequestedValidators) {
			e.Fail("C09", "oracle_committee", "", "request %d (ask %d, %d eligible, weights %v, tries %d): chain chose %v, specification gives %v",
				m.reqCount, ask, len(opers), weights, m.tryCount, stored.RequestedValidators, want)
			return
		}
		seen := map[string]bool{}
		for _, v := range stored.RequestedValidators {
			if seen[v] {
				e.Fail("C09", "oracle_committee_distinct", "", "request %d: validator %s chosen twice", m.reqCount, v)
				return
			}
			seen[v] = true
		}
		m.nOracle++
		unequal := false
		for _, w := range weights {
			if w != weights[0] {
				unequal = true
			}
		}
		if len(opers) >= 3 && unequal && ask < len(opers) {
			m.nNontrivial++
		}
		e.St.Trace(fmt.Sprintf("oracle-pick(%d/%d)", ask, len(opers)))
		e.St.Covered(fmt.Sprintf("c09.oracle.ask%d.elig%d.tries%d.unequal=%v", ask, len(opers), m.tryCount, unequal))
	}
	// oracle deactivations in the end block
	for _, ev := range EventsOfType(ParseEvents(blk.Resp.Events), oracletypes.EventTypeDeactivate) {
		m.active[ev.Get(oracletypes.AttributeKeyValidator)] = false
	}
	m.tryCount = e.App().OracleKeeper.GetParams(ctx).SamplingTryCount
	m.readVals(e)

	// the real sampler on boundary-biased tiny weights (where a cumulative-weight boundary is actually hit), seeded by this
	// block's rolling seed: pure-function differential sampling that rides along the history
	for i := 0; i < 3; i++ {
		n := 2 + e.Ch.Intn("c09.diff.n", 5)
		w := make([]uint64, n)
		huge := e.Ch.Bool("c09.diff.huge", 300)
		for k := range w {
			w[k] = uint64(1 + e.Ch.Intn("c09.diff.w", 4))
			if huge {
				// totals between 2^62 and 1.5*2^63: "draw mod total" is far from uniform there and any re-draw, widening or
				// signed conversion in the sampler changes the result
				w[k] = 1<<60 + e.Ch.U64("c09.diff.hugew")>>4 // <= 2^61 each, at most 6 of them: the total stays below 2^64 (the sampler panics on overflow by design)
			}
		}
		if huge {
			e.St.Probe("c09_sampler_differential_draws_with_totals_near_2^63")
		}
		cnt := 1 + e.Ch.Intn("c09.diff.cnt", n)
		tries := 1 + e.Ch.Intn("c09.diff.tries", 4)
		nonce := be64(uint64(blk.Height)*8 + uint64(i))
		rng, err := bandrng.NewRng(m.seed, nonce, chainID)
		if err != nil {
			continue
		}
		got := bandrng.ChooseSomeMaxWeight(rng, w, cnt, tries)
		want := ref.ChooseBestOfN(ref.NewHMACDRBG(m.seed, nonce, chainID), w, cnt, tries)
		if fmt.Sprint(got) != fmt.Sprint(want) {
			e.Fail("C09", "sampler_differential", "", "weights %v count %d tries %d seed %X nonce %X: repository sampler %v, specification %v", w, cnt, tries, m.seed, nonce, got, want)
			return
		}
		e.St.Probe("c09_sampler_differential_draws")
	}
	// signer selection
	if m.WithTSS {
		sh := getShadow(e)
		sh.Advance(e, blk)
		for _, a := range sh.J.Assigns {
			if int(a.Threshold) > len(a.Eligible) {
				e.Fail("C09", "signers_too_few_eligible", "", "signing %d attempt %d assigned although only %d members are active with a queued nonce (threshold %d)", a.Sig.ID, a.Att.N, len(a.Eligible), a.Threshold)
				return
			}
			d := ref.NewHMACDRBG(m.seed, append(be64(a.Sig.ID), be64(a.Att.N)...), chainID)
			want := ref.ChooseSigners(d, a.Eligible, int(a.Threshold))
			got := a.Att.IDs()
			if fmt.Sprint(want) != fmt.Sprint(got) {
				e.Fail("C09", "signer_committee", "", "signing %d attempt %d (eligible %v, threshold %d): chain assigned %v, specification gives %v", a.Sig.ID, a.Att.N, a.Eligible, a.Threshold, got, want)
				return
			}
			m.nSigners++
			if len(a.Eligible) >= 3 && int(a.Threshold) < len(a.Eligible) {
				m.nNontrivial++
			}
			e.St.Trace(fmt.Sprintf("signer-pick(%d/%d)", a.Threshold, len(a.Eligible)))
			e.St.Covered(fmt.Sprintf("c09.signers.thr%d.elig%d", a.Threshold, len(a.Eligible)))
		}
	}
}

func (m *C09) Pending(e *Env) bool { return false }
func (m *C09) Finish(e *Env)       {}
func (m *C09) NonTrivial(e *Env) bool {
	e.St.ProbeN("c09_oracle_selections", m.nOracle)
	e.St.ProbeN("c09_signer_selections", m.nSigners)
	e.St.ProbeN("c09_too_few_eligible", m.nTooFew)
	return m.nNontrivial > 0
}
