package chainsim

import (
	"testing"
	"testing/cryptotest"

	"verifsim/core"
)

// TestWorker is the entry point used by /verif/check (one OS process per worker).
func TestWorker(t *testing.T) {
	core.WorkerMain(t, core.Engine{
		Name: "chainsim",
		Run: func(o core.RunOpts) *core.RunResult {
			var res *core.RunResult
			o.T.Run("run", func(t *testing.T) {
				// pkg/tss draws key material and nonces from crypto/rand: make it a function of the seed
				cryptotest.SetGlobalRandom(t, o.Seed)
				res = RunOne(o)
			})
			return res
		},
	})
}
