package chainsim

import (
	"testing"

	"verifsim/core"
)

// TestWorker is the entry point used by /verif/check (one OS process per worker).
func TestWorker(t *testing.T) {
	core.WorkerMain(t, core.Engine{
		Name: "chainsim",
		Run: func(o core.RunOpts) *core.RunResult {
			return RunOne(o)
		},
	})
}
