package chainsim

import (
	"fmt"
	"math/big"
	"sort"

	storetypes "cosmossdk.io/store/types"

	sdk "github.com/cosmos/cosmos-sdk/types"

	band "github.com/bandprotocol/chain/v3/app"
	restaketypes "github.com/bandprotocol/chain/v3/x/restake/types"
)

// importedStateChecks runs at the end of a clean run: the chain is exported and re-initialised from the export (an upgrade-style
// restart, where only exported state survives) and the derived indices the property relies on must have been rebuilt.
func importedStateChecks(e *Env) {
	if e.Viol != nil || e.W.Halt != nil || e.W.Divergence != "" {
		return
	}
	switch e.Prop {
	case "C07", "C16", "C17", "C05":
	default:
		return
	}
	p := 300
	if e.Prop == "C17" {
		// On the current tree a tunnel genesis that contains a tunnel cannot be imported at all (InitGenesis panics "cannot get
		// route": the genesis type does not unpack the tunnels' route Any after JSON decoding). That defect lies outside the listed
		// properties; the attempt is kept at a low rate so that the evidence shows it (probe export_import_failed).
		p = 40
	}
	if !e.Ch.Bool("final.exportimport", p) {
		return
	}
	app, ctx, done, err := e.W.ExportImport()
	if err != nil {
		// an export that cannot be imported is a defect, but not one of this property: recorded, not judged here
		e.St.Probe("export_import_failed")
		e.Log.Add("export/import failed: %v", err)
		return
	}
	defer done()
	e.St.Fault("restart_from_exported_genesis")
	switch e.Prop {
	case "C17":
		importedC17(e, app, ctx)
	case "C16":
		importedC16(e, app, ctx)
	case "C07":
		importedC07(e, app, ctx)
	case "C05":
		importedC05(e, app, ctx)
	}
}

// importedC05: every member's queue of registered nonce pairs survives the restart in the order registered.
func importedC05(e *Env, app *band.BandApp, ctx sdk.Context) {
	queue := func(a *band.BandApp, c sdk.Context, addr sdk.AccAddress) []string {
		q := a.TSSKeeper.GetDEQueue(c, addr)
		var out []string
		for i := q.Head; i < q.Tail; i++ {
			de, err := a.TSSKeeper.GetDE(c, addr, i)
			if err != nil {
				out = append(out, "missing")
				continue
			}
			out = append(out, fmt.Sprintf("%X", de.PubD[:6]))
		}
		return out
	}
	for _, u := range e.W.Users {
		before := queue(e.App(), e.Ctx(), u.Addr)
		after := queue(app, ctx, u.Addr)
		if fmt.Sprint(before) != fmt.Sprint(after) {
			e.Fail("C05", "nonce_queue_changed_by_export_import", "", "%s: queued nonce pairs (by D) before the restart from exported genesis %v, after %v", u.Name, before, after)
			return
		}
	}
}

func importedC17(e *Env, app *band.BandApp, ctx sdk.Context) {
	tk := app.TunnelKeeper
	active := map[uint64]bool{}
	for _, id := range tk.GetActiveTunnelIDs(ctx) {
		active[id] = true
	}
	orig := e.App().TunnelKeeper.GetTunnels(e.Ctx())
	got := tk.GetTunnels(ctx)
	if len(orig) != len(got) {
		e.Fail("C17", "tunnels_lost_in_export_import", "", "%d tunnels before the restart from exported genesis, %d after", len(orig), len(got))
		return
	}
	for i, t := range got {
		if t.IsActive != orig[i].IsActive || !t.TotalDeposit.Equal(orig[i].TotalDeposit) {
			e.Fail("C17", "tunnel_changed_in_export_import", "", "tunnel %d: active=%v total=%s before the restart from exported genesis, active=%v total=%s after", t.ID, orig[i].IsActive, orig[i].TotalDeposit, t.IsActive, t.TotalDeposit)
			return
		}
		if t.IsActive != active[t.ID] {
			e.Fail("C17", "active_index", "after_import", "after a restart from exported genesis tunnel %d is flagged active=%v but is in the active index=%v", t.ID, t.IsActive, active[t.ID])
			return
		}
		delete(active, t.ID)
	}
	for id := range active {
		e.Fail("C17", "active_index", "after_import_unknown", "after a restart from exported genesis the active index holds unknown tunnel %d", id)
		return
	}
}

func importedC16(e *Env, app *band.BandApp, ctx sdk.Context) {
	rk := app.RestakeKeeper
	store := ctx.KVStore(app.GetKey(restaketypes.StoreKey))
	for _, u := range e.W.Users {
		locks := rk.GetLocksByAddress(ctx, u.Addr)
		it := storetypes.KVStorePrefixIterator(store, restaketypes.LocksByPowerIndexKey(u.Addr))
		var idx, want []string
		for ; it.Valid(); it.Next() {
			_, p := restaketypes.SplitLockByPowerIndexKey(it.Key())
			idx = append(idx, fmt.Sprintf("%s=%s", string(it.Value()), p))
		}
		it.Close()
		for _, l := range locks {
			want = append(want, fmt.Sprintf("%s=%s", l.Key, l.Power))
		}
		sort.Strings(idx)
		sort.Strings(want)
		if fmt.Sprint(idx) != fmt.Sprint(want) {
			e.Fail("C16", "lock_power_index", "after_import", "after a restart from exported genesis %s: by-power index %v, locks %v", u.Name, idx, want)
			return
		}
		var before []string
		for _, l := range e.App().RestakeKeeper.GetLocksByAddress(e.Ctx(), u.Addr) {
			before = append(before, fmt.Sprintf("%s=%s", l.Key, l.Power))
		}
		sort.Strings(before)
		if fmt.Sprint(before) != fmt.Sprint(want) {
			e.Fail("C16", "locks_changed_in_export_import", "", "%s: locks %v before the restart from exported genesis, %v after", u.Name, before, want)
			return
		}
	}
}

func importedC07(e *Env, app *band.BandApp, ctx sdk.Context) {
	fk := app.FeedsKeeper
	totals := map[string]*big.Int{}
	for _, u := range e.W.Users {
		for _, s := range fk.GetVote(ctx, u.Addr) {
			if totals[s.ID] == nil {
				totals[s.ID] = new(big.Int)
			}
			totals[s.ID].Add(totals[s.ID], big.NewInt(s.Power))
		}
	}
	idx := fk.GetSignalTotalPowersByPower(ctx, 10000)
	seen := map[string]bool{}
	for _, s := range idx {
		if seen[s.ID] || totals[s.ID] == nil || big.NewInt(s.Power).Cmp(totals[s.ID]) != 0 {
			e.Fail("C07", "signal_power_index", "after_import", "after a restart from exported genesis the by-power index holds %s=%d; standing votes sum to %v (duplicate=%v)", s.ID, s.Power, totals[s.ID], seen[s.ID])
			return
		}
		seen[s.ID] = true
	}
	if len(idx) != len(totals) {
		e.Fail("C07", "signal_power_index", "after_import_missing", "after a restart from exported genesis the by-power index has %d entries, %d signals have standing votes", len(idx), len(totals))
	}
}
