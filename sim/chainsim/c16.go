package chainsim

import (
	"fmt"
	"sort"

	"cosmossdk.io/math"
	storetypes "cosmossdk.io/store/types"

	sdk "github.com/cosmos/cosmos-sdk/types"
	authtypes "github.com/cosmos/cosmos-sdk/x/auth/types"

	restaketypes "github.com/bandprotocol/chain/v3/x/restake/types"

	"verifsim/world"
)

// C16 — restake: locked power cannot be withdrawn; stakes fully backed.
type C16 struct {
	deactivated map[string]bool
	nRejectedAtLockMinus1, nAcceptedAtLock, nVaultUnlock, nOps, nLocks int
}

func (m *C16) Prop() string { return "C16" }

func isRestakeLockError(tx *world.TxRecord) bool {
	// ErrUnableToUndelegate / ErrUnableToUnstake
	return tx.Result.Codespace == restaketypes.ModuleName && (tx.Result.Code == restaketypes.ErrUnableToUndelegate.ABCICode() || tx.Result.Code == restaketypes.ErrUnableToUnstake.ABCICode())
}

func (m *C16) OnBlock(e *Env, blk *world.BlockRecord) {
	sh := getStake(e)
	sh.Advance(e, blk)
	ctx := e.Ctx()
	rk := e.App().RestakeKeeper
	if m.deactivated == nil {
		m.deactivated = map[string]bool{}
	}
	// module-level operations applied before this block
	for _, j := range sh.JMod {
		switch j.Kind {
		case "lock":
			okModel := j.Power.LTE(j.PowerAt) && (!j.VaultKnown || j.VaultActive) && !j.Power.IsNegative()
			if j.Err == nil && !okModel {
				why := "power_above_total"
				if j.VaultKnown && !j.VaultActive {
					why = "inactive_vault"
				}
				e.Fail("C16", "lock_accepted", why, "SetLockedPower(%s, vault %s, %s) accepted although total power is %s, vault known=%v active=%v", j.Addr, j.Key, j.Power, j.PowerAt, j.VaultKnown, j.VaultActive)
				return
			}
			if j.Err == nil {
				m.nLocks++
				e.St.Trace("module-lock-ok")
			} else {
				e.St.Trace("module-lock-rejected")
			}
		case "deactivate_vault":
			if j.Err == nil {
				if !j.VaultKnown || !j.VaultActive {
					e.Fail("C16", "vault_deactivation", "", "DeactivateVault(%s) succeeded although vault known=%v active=%v", j.Key, j.VaultKnown, j.VaultActive)
					return
				}
				m.deactivated[j.Key] = true
				e.St.Trace("vault-deactivated")
			}
		}
	}
	for _, j := range sh.JOps {
		if infraReject(j.Tx) {
			continue
		}
		m.nOps++
		withdraw := j.Meta.Kind == "undelegate" || j.Meta.Kind == "unstake"
		if !withdraw {
			if j.Meta.Kind == "redelegate" {
				e.St.Trace(fmt.Sprintf("redelegate(ok=%v)", j.Tx.OK()))
			}
			continue
		}
		wouldBreak := j.PowerPost.LT(j.MaxLock)
		if j.Tx.OK() {
			if !j.Possible {
				e.Fail("C16", "impossible_withdrawal_accepted", j.Why, "%s of %s%s by %s accepted although %s", j.Meta.Kind, j.Meta.Amount, j.Meta.Coins, j.Meta.Addr.Name, j.Why)
				return
			}
			if wouldBreak {
				e.Fail("C16", "locked_power_withdrawn", j.Meta.Kind, "%s by %s (aim %s) succeeded: total power %s -> %s but the largest lock in an active vault is %s",
					j.Meta.Kind, j.Meta.Addr.Name, j.Meta.Aim, j.PowerPre, j.PowerPost, j.MaxLock)
				return
			}
			if j.PowerPost.Equal(j.MaxLock) && j.MaxLock.IsPositive() {
				m.nAcceptedAtLock++
			}
			e.St.Trace(fmt.Sprintf("%s-ok(%s)", j.Meta.Kind, j.Meta.Aim))
			e.St.Covered(fmt.Sprintf("c16.%s.ok.%s", j.Meta.Kind, j.Meta.Aim))
		} else {
			if isRestakeLockError(j.Tx) && !wouldBreak {
				// the restake module refused although no active vault locks that much
				inactive := math.ZeroInt()
				for k, p := range sh.Locks[j.Meta.Addr.Addr.String()] {
					if !sh.Vaults[k] && p.GT(inactive) {
						inactive = p
					}
				}
				chain := ""
				for _, l := range e.App().RestakeKeeper.GetLocksByAddress(e.Ctx(), j.Meta.Addr.Addr) {
					chain += fmt.Sprintf(" %s=%s(active=%v)", l.Key, l.Power, e.App().RestakeKeeper.IsActiveVault(e.Ctx(), l.Key))
				}
				e.Fail("C16", "withdrawal_rejected_without_active_lock", j.Meta.Kind, "%s by %s rejected as locked: total power %s -> %s, largest active lock %s (largest lock in a deactivated vault %s); chain locks after the block:%s",
					j.Meta.Kind, j.Meta.Addr.Name, j.PowerPre, j.PowerPost, j.MaxLock, inactive, chain)
				return
			}
			if isRestakeLockError(j.Tx) && j.PowerPost.Equal(j.MaxLock.SubRaw(1)) {
				m.nRejectedAtLockMinus1++
			}
			e.St.Trace(fmt.Sprintf("%s-rej(%s)", j.Meta.Kind, j.Meta.Aim))
			e.St.Covered(fmt.Sprintf("c16.%s.rejected.%s", j.Meta.Kind, j.Meta.Aim))
		}
	}
	// state equals the model (a rejected attempt changed nothing; accepted ones changed exactly what they say)
	sum := sdk.NewCoins()
	for _, st := range rk.GetStakes(ctx) {
		sum = sum.Add(st.Coins...)
	}
	modBal := e.App().BankKeeper.GetAllBalances(ctx, authtypes.NewModuleAddress(restaketypes.ModuleName))
	if !modBal.Equal(sum) {
		e.Fail("C16", "stakes_not_backed", "", "restake module account holds %s, recorded stakes sum to %s", modBal, sum)
		return
	}
	for _, u := range sh.Voters {
		addr := u.Addr.String()
		if got := rk.GetStake(ctx, u.Addr).Coins; !got.Equal(sh.Stakes[addr]) {
			e.Fail("C16", "stake_record", "", "%s: recorded stake %s, model %s", u.Name, got, sh.Stakes[addr])
			return
		}
		bonded, err := e.App().StakingKeeper.GetDelegatorBonded(ctx, u.Addr)
		if err == nil && !bonded.Equal(sh.Delegated(addr)) {
			e.Fail("C16", "delegation_record", "", "%s: bonded delegations %s, model %s", u.Name, bonded, sh.Delegated(addr))
			return
		}
		// locks and their by-power index
		locks := rk.GetLocksByAddress(ctx, u.Addr)
		if len(locks) != len(sh.Locks[addr]) {
			e.Fail("C16", "lock_record", "", "%s: %d locks on chain, model %d", u.Name, len(locks), len(sh.Locks[addr]))
			return
		}
		for _, l := range locks {
			mp, ok := sh.Locks[addr][l.Key]
			if !ok {
				e.Fail("C16", "lock_record", "", "%s: unexpected lock in vault %s", u.Name, l.Key)
				return
			}
			if l.Key != "feeds" && !l.Power.Equal(mp) {
				e.Fail("C16", "lock_record", "", "%s: lock in vault %s is %s, model %s", u.Name, l.Key, l.Power, mp)
				return
			}
		}
		store := ctx.KVStore(e.App().GetKey(restaketypes.StoreKey))
		it := storetypes.KVStorePrefixIterator(store, restaketypes.LocksByPowerIndexKey(u.Addr))
		var idx []string
		for ; it.Valid(); it.Next() {
			_, p := restaketypes.SplitLockByPowerIndexKey(it.Key())
			idx = append(idx, fmt.Sprintf("%s=%s", string(it.Value()), p))
		}
		it.Close()
		var want []string
		for _, l := range locks {
			want = append(want, fmt.Sprintf("%s=%s", l.Key, l.Power))
		}
		sort.Strings(idx)
		sort.Strings(want)
		if fmt.Sprint(idx) != fmt.Sprint(want) {
			e.Fail("C16", "lock_power_index", "", "%s: by-power index %v, locks %v", u.Name, idx, want)
			return
		}
	}
	for _, v := range rk.GetVaults(ctx) {
		act, ok := sh.Vaults[v.Key]
		if !ok || act != v.IsActive {
			e.Fail("C16", "vault_state", "", "vault %s: chain active=%v, model known=%v active=%v", v.Key, v.IsActive, ok, act)
			return
		}
		if m.deactivated[v.Key] && v.IsActive {
			e.Fail("C16", "vault_reactivated", "", "vault %s is active again after having been deactivated", v.Key)
			return
		}
	}
	// probe: a withdrawal that a deactivated vault alone would have blocked
	for _, j := range sh.JOps {
		if j.Tx.OK() && (j.Meta.Kind == "undelegate" || j.Meta.Kind == "unstake") {
			for k, p := range sh.Locks[j.Meta.Addr.Addr.String()] {
				if !sh.Vaults[k] && j.PowerPost.LT(p) {
					m.nVaultUnlock++
				}
			}
		}
	}
}

func (m *C16) Pending(e *Env) bool { return false }
func (m *C16) Finish(e *Env)       {}
func (m *C16) NonTrivial(e *Env) bool {
	e.St.ProbeN("c16_ops", m.nOps)
	e.St.ProbeN("c16_rejected_at_lock_minus_1", m.nRejectedAtLockMinus1)
	e.St.ProbeN("c16_accepted_at_exactly_the_lock", m.nAcceptedAtLock)
	e.St.ProbeN("c16_withdrawal_unlocked_by_vault_deactivation", m.nVaultUnlock)
	e.St.ProbeN("c16_module_locks", m.nLocks)
	return m.nRejectedAtLockMinus1 > 0 && m.nAcceptedAtLock > 0
}
