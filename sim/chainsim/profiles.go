package chainsim

import (
	"math/big"
	"fmt"
	"os"
	"runtime/debug"
	"time"

	sdk "github.com/cosmos/cosmos-sdk/types"
	govv1 "github.com/cosmos/cosmos-sdk/x/gov/types/v1"
	banktypes "github.com/cosmos/cosmos-sdk/x/bank/types"
	govtypes "github.com/cosmos/cosmos-sdk/x/gov/types"
	minttypes "github.com/cosmos/cosmos-sdk/x/mint/types"
	distrtypes "github.com/cosmos/cosmos-sdk/x/distribution/types"
	slashingtypes "github.com/cosmos/cosmos-sdk/x/slashing/types"
	stakingtypes "github.com/cosmos/cosmos-sdk/x/staking/types"

	"cosmossdk.io/math"

	band "github.com/bandprotocol/chain/v3/app"
	oracletypes "github.com/bandprotocol/chain/v3/x/oracle/types"

	"verifsim/core"
	"verifsim/world"
)

func stackTrace() string { return string(debug.Stack()) }

// drawValTokens draws a validator power vector.
func drawValTokens(e *Env, minN, maxN int) []int64 {
	n := e.Ch.Range("cfg.nvals", minN, maxN)
	shape := e.Ch.Intn("cfg.valshape", 5)
	out := make([]int64, n)
	for i := range out {
		switch shape {
		case 0: // equal
			out[i] = 100_000_000
		case 1: // one dominant
			out[i] = 10_000_000
			if i == 0 {
				out[i] = 1_000_000_000
			}
		case 2: // spread
			out[i] = int64(1+e.Ch.Intn("cfg.valtok", 50)) * 7_000_000
		case 4: // the last validator holds half of the total, one token less, or one more: the half-power rules at their boundary
			out[i] = 1_000_000 + int64(e.Ch.Intn("cfg.valtok4", 5))*500_000
			if i == n-1 && n > 1 {
				var sum int64
				for _, x := range out[:i] {
					sum += x
				}
				out[i] = sum + int64(e.Ch.Intn("cfg.valtok4.last", 3)) - 1
			}
		case 3: // tiny + large
			out[i] = []int64{1_000_000, 2_000_000, 900_000_000}[e.Ch.Intn("cfg.valtok3", 3)]
		}
	}
	e.Desc("validators=%d shape=%d tokens=%v", n, shape, out)
	return out
}

func govGenesis(votingPeriod time.Duration) func(w *world.World, gs band.GenesisState) {
	return func(w *world.World, gs band.GenesisState) {
		cdc := w.Replicas[0].App.AppCodec()
		var g govv1.GenesisState
		cdc.MustUnmarshalJSON(gs[govtypes.ModuleName], &g)
		g.Params.VotingPeriod = &votingPeriod
		half := votingPeriod / 2
		g.Params.ExpeditedVotingPeriod = &half
		g.Params.MinDeposit = sdk.NewCoins(sdk.NewInt64Coin("uband", 1000))
		g.Params.ExpeditedMinDeposit = sdk.NewCoins(sdk.NewInt64Coin("uband", 2000))
		gs[govtypes.ModuleName] = cdc.MustMarshalJSON(&g)
	}
}

// quietEconomy removes inflation and community tax so that ledgers move only by the services under test.
func quietEconomy() func(w *world.World, gs band.GenesisState) {
	return func(w *world.World, gs band.GenesisState) {
		cdc := w.Replicas[0].App.AppCodec()
		var mg minttypes.GenesisState
		cdc.MustUnmarshalJSON(gs[minttypes.ModuleName], &mg)
		mg.Minter.Inflation = math.LegacyZeroDec()
		mg.Params.InflationMin = math.LegacyZeroDec()
		mg.Params.InflationMax = math.LegacyZeroDec()
		mg.Params.InflationRateChange = math.LegacyZeroDec()
		gs[minttypes.ModuleName] = cdc.MustMarshalJSON(&mg)
		var dg distrtypes.GenesisState
		cdc.MustUnmarshalJSON(gs[distrtypes.ModuleName], &dg)
		dg.Params.CommunityTax = math.LegacyZeroDec()
		gs[distrtypes.ModuleName] = cdc.MustMarshalJSON(&dg)
	}
}

func drawFaults(e *Env, allowCrash bool) world.Faults {
	mode := e.Ch.Weighted("cfg.faultmode", []int{25, 50, 25}) // none / moderate / heavy
	f := world.Faults{}
	switch mode {
	case 0:
		e.Desc("faults=none")
		return f
	case 1:
		f = world.Faults{TxLoss: 30, TxDelay: 80, TxDup: 30, Reorder: 300, AbsentVote: 100, NilVote: 30, RoundGT0: 50,
			TimeJump: 30, SubSecond: 60, DeadlineAim: 200, OutOfGas: 20}
		if allowCrash {
			f.Crash = 15
		}
	case 2:
		f = world.Faults{TxLoss: 100, TxDelay: 200, TxDup: 80, Reorder: 600, AbsentVote: 250, NilVote: 80, RoundGT0: 150,
			TimeJump: 80, SubSecond: 200, DeadlineAim: 400, OutOfGas: 60}
		if allowCrash {
			f.Crash = 40
		}
	}
	// swarm: switch off a random subset of kinds
	off := func(p *int, name string) {
		if e.Ch.Bool("cfg.fault.off."+name, 250) {
			*p = 0
		}
	}
	off(&f.TxLoss, "loss")
	off(&f.TxDelay, "delay")
	off(&f.TxDup, "dup")
	off(&f.Reorder, "reorder")
	off(&f.TimeJump, "jump")
	off(&f.SubSecond, "subsec")
	off(&f.OutOfGas, "oog")
	off(&f.Crash, "crash")
	e.Desc("faults=%+v", f)
	return f
}

func setupProfile(e *Env, o core.RunOpts) error {
	switch o.Prop {
	case "C01":
		return setupOracle(e, o)
	case "C03", "C05", "C10":
		if o.Prop == "C05" && e.Ch.Bool("cfg.c05.tunnel", 200) {
			return setupTunnel(e, o) // nonces consumed by tunnel packets (and their failed creations)
		}
		if o.Prop != "C03" && e.Ch.Bool("cfg.tss.withtransition", 250) {
			return setupTransition(e, o)
		}
		return setupTSS(e, o)
	case "C13":
		switch e.Ch.Intn("cfg.c13.profile", 5) {
		case 0, 1:
			return setupOracle(e, o)
		case 2:
			return setupTSS(e, o)
		case 4:
			return setupTunnel(e, o) // signing fees paid by tunnel fee payers (monitor C13Tunnel)
		}
		return setupTransition(e, o)
	case "C06", "C07", "C15", "C16":
		return setupFeeds(e, o)
	case "C02":
		return setupFuzz(e, o)
	case "C12":
		return setupRelay(e, o)
	case "C14":
		if e.Ch.Bool("cfg.c14.transition", 250) {
			// rewards while signing groups are replaced: several groups exist, members belong to more than one
			e.Shared["transition.eco"] = true
			return setupTransition(e, o)
		}
		return setupEconomy(e, o)
	case "C08", "C17":
		return setupTunnel(e, o)
	case "C11":
		if e.Ch.Bool("cfg.c11.transition", 200) {
			return setupTransition(e, o)
		}
		return setupTunnel(e, o)
	case "C04", "C18":
		return setupTransition(e, o)
	case "C09":
		switch e.Ch.Intn("cfg.c09.profile", 5) {
		case 0, 1:
			return setupTSS(e, o)
		case 2:
			return setupTransition(e, o)
		}
		return setupOracle(e, o)
	}
	return fmt.Errorf("no profile for %s", o.Prop)
}

func drawOracleParams(e *Env) oracletypes.Params {
	p := oracletypes.DefaultParams()
	p.ExpirationBlockCount = uint64(e.Ch.Range("cfg.oracle.exp", 2, 12))
	p.MaxAskCount = uint64(e.Ch.Range("cfg.oracle.maxask", 1, 9))
	p.SamplingTryCount = uint64(e.Ch.Range("cfg.oracle.try", 1, 5))
	p.MaxRawRequestCount = uint64(e.Ch.Range("cfg.oracle.maxraw", 2, 6))
	p.InactivePenaltyDuration = uint64(time.Duration(e.Ch.Range("cfg.oracle.penalty", 1, 40)) * time.Second)
	p.OracleRewardPercentage = 0
	return p
}

func setupOracle(e *Env, o core.RunOpts) error {
	tokens := drawValTokens(e, 1, 7)
	params := drawOracleParams(e)
	e.Shared["oracle.genesis.params"] = params
	e.Desc("oracle params: exp=%d maxask=%d try=%d maxraw=%d", params.ExpirationBlockCount, params.MaxAskCount, params.SamplingTryCount, params.MaxRawRequestCount)
	cfg := world.Config{Seed: o.Seed, ChainID: "simband", ValTokens: tokens, NumUsers: 5, Replicas: 1, GenesisTime: baseTime}
	if o.Prop == "C09" && e.Ch.Bool("cfg.c09.replicas", 800) {
		cfg.Replicas = 2 // determinism of the selection: two nodes execute every block
	}
	faults := drawFaults(e, false)
	var dss []dsSpec
	withFees := o.Prop == "C13" || e.Ch.Bool("cfg.oracle.fees", 300)
	feeTable := []sdk.Coins{sdk.NewCoins(sdk.NewInt64Coin("uband", 5)), sdk.NewCoins(), sdk.NewCoins(sdk.NewInt64Coin("uband", 3), sdk.NewInt64Coin("uusd", 2)), sdk.NewCoins(sdk.NewInt64Coin("uusd", 7))}
	dsFees := map[int64]sdk.Coins{}
	dsTreas := map[int64]string{}
	for i := 0; i < 4; i++ {
		treas := world.NewAccount(o.Seed, fmt.Sprintf("treasury%d", i%3))
		fee := sdk.NewCoins()
		if withFees {
			fee = feeTable[(i+e.Ch.Intn("cfg.oracle.feerot", 4))%4]
		}
		dss = append(dss, dsSpec{Fee: fee, Treasury: treas, Exec: []byte(fmt.Sprintf("#!/bin/sh\necho %d", i))})
		dsFees[int64(i+1)] = fee
		dsTreas[int64(i+1)] = treas.Addr.String()
	}
	cfg.GenesisMods = append(cfg.GenesisMods, govGenesis(4*time.Second), quietEconomy(), oracleGenesis(e, params, dss))
	w, err := world.New(e.Ch, e.Log, e.St, cfg, o.Scratch)
	if err != nil {
		return err
	}
	e.W = w
	w.F = faults
	act := &OracleActor{MaxOpen: e.Ch.Range("cfg.oracle.maxopen", 1, 6), ReqRate: 150 + e.Ch.Intn("cfg.oracle.reqrate", 500),
		Scripts: []int{scriptEcho, scriptSimple, scriptNoRet, scriptTrap, scriptBadPre, scriptNoRaw, scriptEmpty, scriptProbe, scriptDesc}, NumDS: len(dss),
		ActivateP: 1000, Byz: e.Ch.Intn("cfg.oracle.byz", 400), ReactivateP: 100}
	if e.Ch.Bool("cfg.oracle.someinactive", 300) {
		act.ActivateP = 700
	}
	e.Actors = append(e.Actors, act)
	c13 := &C13{DSFees: dsFees, DSTreas: dsTreas}
	if withFees {
		act.DSFees = dsFees
		e.Desc("data source fees: %v", dsFees)
		// two requesters are made poor so that balances run out midway
		act.Requesters = w.Users[1:]
		for _, i := range []int{1, 2} {
			keep := sdk.NewCoins(sdk.NewInt64Coin("uband", int64(10+e.Ch.Intn("cfg.poor.uband", 60))), sdk.NewInt64Coin("uusd", int64(e.Ch.Intn("cfg.poor.uusd", 40))))
			all := sdk.NewCoins(sdk.NewInt64Coin("uband", 1_000_000_000_000), sdk.NewInt64Coin("uusd", 1_000_000_000))
			msg := banktypes.NewMsgSend(w.Users[i].Addr, w.Users[0].Addr, all.Sub(keep...))
			w.Submit(&world.Intent{Signer: w.Users[i], Msgs: []sdk.Msg{msg}, Tag: "drain", Meta: &bankMeta{Msg: msg}})
		}
		if o.Prop == "C13" && e.Ch.Bool("cfg.oracle.dsedit", 600) {
			var trs []*world.Account
			for i := 0; i < 3; i++ {
				trs = append(trs, world.NewAccount(o.Seed, fmt.Sprintf("treasury%d", i)))
			}
			e.Actors = append(e.Actors, &DSEditor{Owner: w.Users[0], Fees: feeTable, Treasuries: trs, N: len(dss), Rate: 40 + e.Ch.Intn("cfg.oracle.dsedit.rate", 120)})
		}
	}
	if (o.Prop == "C09" || o.Prop == "C01") && e.Ch.Bool("cfg.oracle.samplingchurn", 400) {
		gov := &GovActor{}
		e.Shared["gov"] = gov
		e.Actors = append(e.Actors, gov, &SamplingParamChurn{Rate: 20 + e.Ch.Intn("cfg.oracle.churnrate", 60), Expiry: o.Prop == "C01"})
	}
	e.Monitors = append(e.Monitors, NewC01(), &C09{}, c13)
	e.MaxSteps = e.Ch.Range("cfg.steps", 30, 90)
	if o.Thorough {
		e.MaxSteps = e.Ch.Range("cfg.steps", 40, 160)
	}
	e.DrainMax = int(params.ExpirationBlockCount) + 16
	return nil
}

func setupTSS(e *Env, o core.RunOpts) error {
	tokens := drawValTokens(e, 1, 4)
	tp := drawTSSParams(e)
	bp := drawBandtssParams(e)
	e.Shared["tss.genesis.params"] = tp
	e.Shared["bandtss.genesis.params"] = bp
	e.Shared["bandtss.genesis.current"] = uint64(1)
	cfg := world.Config{Seed: o.Seed, ChainID: "simband", ValTokens: tokens, NumUsers: 14, Replicas: 1, GenesisTime: baseTime}
	if o.Prop == "C09" && e.Ch.Bool("cfg.c09.replicas", 800) {
		cfg.Replicas = 2 // determinism of the selection: two nodes execute every block
	}
	if o.Prop == "C03" {
		cfg.NumUsers = 34
	}
	faults := drawFaults(e, false)
	// accounts are created by world.New; member pool must exist before genesis, so derive the same accounts here
	var accs []*world.Account
	for i := 0; i < cfg.NumUsers; i++ {
		accs = append(accs, world.NewAccount(o.Seed, fmt.Sprintf("user%d", i)))
	}
	size := 1 + e.Ch.Intn("cfg.tss.groupsize", 8)
	if o.Prop == "C03" && e.Ch.Bool("cfg.tss.biggroup", 80) {
		size = 9 + e.Ch.Intn("cfg.tss.groupsize.big", 4)
	}
	thr := uint64(1 + e.Ch.Intn("cfg.tss.threshold", size))
	if o.Prop == "C03" && e.Ch.Bool("cfg.tss.hugegroup", 40) {
		// member ids above 20 and committees of 15+ (governance may raise max_group_size): the Lagrange coefficients leave the
		// precomputed table and their numerators and denominators exceed 64 bits
		size = 21 + e.Ch.Intn("cfg.tss.groupsize.huge", 10)
		thr = uint64(size - e.Ch.Intn("cfg.tss.threshold.huge", 7))
		tp.MaxGroupSize = 40
		e.St.Probe("tss_group_with_member_ids_above_20")
	}
	pool := NewTSSPool(e, accs[:size])
	drawMemberBehaviour(e, pool, int(tp.MaxDESize), o.Prop != "C03")
	e.Desc("tss params: period=%d maxattempt=%d maxde=%d; group size=%d threshold=%d; fee=%s penalty=%s", tp.SigningPeriod, tp.MaxSigningAttempt, tp.MaxDESize, size, thr, bp.FeePerSigner, bp.InactivePenaltyDuration)
	shadow := NewTSSShadow(pool)
	e.Shared["tss.shadow"] = shadow
	e.Shared["tss.pool"] = pool
	// C13: oracle requests whose result the group signs (the requester pays the signing fee out of the request's fee limit)
	withOracle := o.Prop == "C13" && e.Ch.Bool("cfg.tss.withoracle", 800)
	if withOracle {
		op := drawOracleParams(e)
		e.Shared["oracle.genesis.params"] = op
		treas := world.NewAccount(o.Seed, "treasury")
		cfg.GenesisMods = append(cfg.GenesisMods, oracleGenesis(e, op, []dsSpec{{Fee: sdk.NewCoins(), Treasury: treas, Exec: []byte("x")}, {Fee: sdk.NewCoins(), Treasury: treas, Exec: []byte("y")}}))
	}
	cfg.GenesisMods = append(cfg.GenesisMods, govGenesis(4*time.Second), quietEconomy(),
		tssGenesis(e, tssGenesisCfg{TSSParams: tp, BandtssParams: bp, GroupMembers: pool.Members, Threshold: thr, InitialDEs: e.Ch.Intn("cfg.tss.initde", int(tp.MaxDESize)+1), GrindKey: e.Ch.Bool("cfg.tss.grindkey", 60)}))
	w, err := world.New(e.Ch, e.Log, e.St, cfg, o.Scratch)
	if err != nil {
		return err
	}
	e.W = w
	w.F = faults
	// world accounts are the same keys; make pool point at the world's account objects
	for i, m := range pool.Members {
		m.Acc = w.Users[i]
	}
	if e.Ch.Bool("cfg.tss.paramchurn", 400) {
		gov := &GovActor{}
		e.Shared["gov"] = gov
		e.Actors = append(e.Actors, gov, &TSSParamChurn{Rate: 15 + e.Ch.Intn("cfg.tss.churnrate", 40), Edges: o.Prop == "C10" && e.Ch.Bool("cfg.tss.churn.edges", 500)})
	}
	e.Actors = append(e.Actors,
		&TSSActor{Pool: pool, ByzP: e.Ch.Intn("cfg.tss.byz", 500), ReactP: 100 + e.Ch.Intn("cfg.tss.react", 400), OverDEP: e.Ch.Intn("cfg.tss.overde", 120)},
		&SigRequester{Rate: 200 + e.Ch.Intn("cfg.sigreq.rate", 600), MaxOpen: 1 + e.Ch.Intn("cfg.sigreq.maxopen", 5), Senders: w.Users[size:], LimitW: []int{70, 10, 10, 10}, RollbackP: 80})
	if o.Prop == "C05" && e.Ch.Bool("cfg.tss.assignfaults", 400) {
		e.Actors = append(e.Actors, &AssignFaults{Rate: 60 + e.Ch.Intn("cfg.tss.assignfaults.rate", 200)})
	}
	if withOracle {
		e.Actors = append(e.Actors, &OracleActor{MaxOpen: 3, ReqRate: 400, Scripts: []int{scriptEcho, scriptSimple}, NumDS: 2, ActivateP: 1000, ReactivateP: 300,
			TSSEncoder: true, Requesters: w.Users[size:], FeeLimit: sdk.NewCoins(sdk.NewInt64Coin("uband", 1000), sdk.NewInt64Coin("uusd", 1000))})
		e.St.Probe("c13_signing_profile_with_oracle_requests")
	}
	e.Monitors = append(e.Monitors, &C05{}, &C03{}, &C10{}, &C09{WithTSS: true}, &C13{WithTSS: true})
	e.MaxSteps = e.Ch.Range("cfg.steps", 30, 90)
	if o.Thorough {
		e.MaxSteps = e.Ch.Range("cfg.steps", 40, 160)
	}
	e.DrainMax = int(tp.SigningPeriod*tp.MaxSigningAttempt) + 12
	return nil
}

// setupTransition: governance-driven group transitions with real DKG, hand-over signing and concurrent requests.
func setupTransition(e *Env, o core.RunOpts) error {
	tokens := drawValTokens(e, 1, 3)
	tp := drawTSSParams(e)
	tp.CreationPeriod = uint64(e.Ch.Range("cfg.tss.creation2", 8, 40))
	if e.Ch.Bool("cfg.tss.longperiod", 300) {
		// long signing periods: a hand-over signing can outlive its transition and still be open when the next one waits
		tp.SigningPeriod = uint64(e.Ch.Range("cfg.tss.period2", 12, 40))
	}
	bp := drawBandtssParams(e)
	eco := e.Shared["transition.eco"] == true
	if eco {
		bp.RewardPercentage = []uint64{10, 50, 100}[e.Ch.Intn("cfg.eco.tpct2", 3)]
	}
	e.Shared["tss.genesis.params"] = tp
	e.Shared["bandtss.genesis.params"] = bp
	cfg := world.Config{Seed: o.Seed, ChainID: "simband", ValTokens: tokens, NumUsers: 13, Replicas: 1, GenesisTime: baseTime}
	if o.Prop == "C09" && e.Ch.Bool("cfg.c09.replicas", 800) {
		cfg.Replicas = 2 // determinism of the selection: two nodes execute every block
	}
	faults := drawFaults(e, false)
	faults.TimeJump /= 3
	var accs []*world.Account
	for i := 0; i < cfg.NumUsers; i++ {
		accs = append(accs, world.NewAccount(o.Seed, fmt.Sprintf("user%d", i)))
	}
	poolSize := 5 + e.Ch.Intn("cfg.dkg.pool", 5)
	pool := NewTSSPool(e, accs[:poolSize])
	drawMemberBehaviour(e, pool, int(tp.MaxDESize), o.Prop == "C18")
	gcfg := tssGenesisCfg{TSSParams: tp, BandtssParams: bp}
	e.Shared["bandtss.genesis.current"] = uint64(0)
	if e.Ch.Bool("cfg.dkg.genesisgroup", 700) {
		size := 1 + e.Ch.Intn("cfg.tss.groupsize", 4)
		gcfg.GroupMembers = pool.Members[:size]
		gcfg.Threshold = uint64(1 + e.Ch.Intn("cfg.tss.threshold", size))
		gcfg.InitialDEs = int(tp.MaxDESize)
		e.Shared["bandtss.genesis.current"] = uint64(1)
	}
	e.Desc("transition profile: pool=%d genesis group=%d/%d creation_period=%d signing_period=%d max_attempt=%d min/max transition=%s/%s fee=%s", poolSize, gcfg.Threshold, len(gcfg.GroupMembers),
		tp.CreationPeriod, tp.SigningPeriod, tp.MaxSigningAttempt, bp.MinTransitionDuration, bp.MaxTransitionDuration, bp.FeePerSigner)
	shadow := NewTSSShadow(pool)
	e.Shared["tss.shadow"] = shadow
	e.Shared["tss.pool"] = pool
	cfg.GenesisMods = append(cfg.GenesisMods, govGenesis(4*time.Second), quietEconomy(), tssGenesis(e, gcfg))
	w, err := world.New(e.Ch, e.Log, e.St, cfg, o.Scratch)
	if err != nil {
		return err
	}
	e.W = w
	w.F = faults
	for i, m := range pool.Members {
		m.Acc = w.Users[i]
	}
	gov := &GovActor{}
	e.Shared["gov"] = gov
	dkg := &DKGActor{Pool: pool, DeviateP: e.Ch.Intn("cfg.dkg.deviate", 250), SilentP: e.Ch.Intn("cfg.dkg.silent", 40), NonMemberP: 30}
	if o.Prop == "C18" {
		dkg.DeviateP /= 3
	}
	if o.Prop == "C04" {
		dkg.CorruptP = []int{0, 300, 600}[e.Ch.Intn("cfg.dkg.corruptheavy", 3)]
	}
	e.Shared["dkg.actor"] = dkg
	e.Actors = append(e.Actors, gov,
		&TransitionDriver{Pool: pool, Rate: 250 + e.Ch.Intn("cfg.trans.rate", 500), ForceP: e.Ch.Intn("cfg.trans.force", 300), MaxSize: 1 + e.Ch.Intn("cfg.trans.maxsize", 5), OverlapP: 150},
		dkg,
		&TSSActor{Pool: pool, ByzP: e.Ch.Intn("cfg.tss.byz", 150), ReactP: 300, OverDEP: 0, HoldStaleP: []int{0, 300, 700}[e.Ch.Intn("cfg.tss.holdstale", 3)]},
		&SigRequester{Rate: 100 + e.Ch.Intn("cfg.sigreq.rate", 400), MaxOpen: 1 + e.Ch.Intn("cfg.sigreq.maxopen", 4), Senders: w.Users[poolSize:], LimitW: []int{85, 5, 5, 5}, RollbackP: 30})
	e.Monitors = append(e.Monitors, &C04{}, &C18{}, &C05{}, &C03{}, &C10{}, &C09{WithTSS: true}, &C13{WithTSS: true}, &C11{})
	if o.Prop == "C05" && e.Ch.Bool("cfg.tss.assignfaults", 400) {
		e.Actors = append(e.Actors, &AssignFaults{Rate: 60 + e.Ch.Intn("cfg.tss.assignfaults.rate", 200)})
	}
	if eco {
		// fees flow into the pool and part of them is paid to the current group's members: the fee ledgers of the other
		// properties' models do not expect that income, so these runs are judged by C14's monitor alone
		e.Actors = append(e.Actors, &FeeActor{Users: w.Users[poolSize:], Rate: 300 + e.Ch.Intn("cfg.eco.feerate", 400)})
		e.Monitors = []Monitor{&C14{}}
	}
	e.MaxSteps = e.Ch.Range("cfg.steps", 60, 150)
	if o.Thorough {
		e.MaxSteps = e.Ch.Range("cfg.steps", 80, 260)
	}
	e.DrainMax = int(tp.CreationPeriod) + int(tp.SigningPeriod*tp.MaxSigningAttempt) + 30
	return nil
}

// setupFeeds: voters (delegations + restaked coins), signal votes, validators feeding prices, data requests, module-level locks.
func setupFeeds(e *Env, o core.RunOpts) error {
	tokens := drawValTokens(e, 1, 7)
	pushOver := -1
	for i := range tokens {
		if e.Ch.Bool("cfg.feeds.bigstake", 60) {
			tokens[i] = 9_000_000_000_000_000 // near 2^63 totals
			if pushOver < 0 && e.Ch.Bool("cfg.feeds.bigstake.edge", 500) {
				// one validator a million tokens short of 2^63: a small delegation during the run takes it past the signed 64-bit limit
				tokens[i] = 1<<63 - 1 - 1_000_000
				pushOver = i
			}
		}
	}
	op := drawOracleParams(e)
	op.InactivePenaltyDuration = uint64(time.Duration(e.Ch.Range("cfg.oracle.penalty2", 1, 20)) * time.Second)
	fp := drawFeedsParams(e)
	e.Shared["oracle.genesis.params"] = op
	allowed := [][]string{{"uusd"}, {"uusd", "uatom"}, {}}[e.Ch.Intn("cfg.restake.allowed", 3)]
	e.Desc("feeds params: grace=%d interval=[%d,%d] step=%d maxfeeds=%d cooldown=%d update_every=%d quorum=%s discrepancy=%d; restake allowed=%v; oracle exp=%d penalty=%s",
		fp.GracePeriod, fp.MinInterval, fp.MaxInterval, fp.PowerStepThreshold, fp.MaxCurrentFeeds, fp.CooldownTime, fp.CurrentFeedsUpdateInterval, fp.PriceQuorum, fp.AllowableBlockTimeDiscrepancy, allowed,
		op.ExpirationBlockCount, time.Duration(op.InactivePenaltyDuration))
	cfg := world.Config{Seed: o.Seed, ChainID: "simband", ValTokens: tokens, NumUsers: 8, Replicas: 1, GenesisTime: baseTime}
	whale := len(allowed) > 0 && e.Ch.Bool("cfg.restake.whale", 100)
	if whale {
		// balances above 2^64 of the restakable denoms: stakes, powers and locks cross the signed and unsigned 64-bit boundaries
		big66 := math.NewIntFromBigInt(new(big.Int).Lsh(big.NewInt(1), 66))
		cfg.UserCoins = sdk.NewCoins(sdk.NewInt64Coin("uband", 1_000_000_000_000), sdk.NewCoin("uusd", big66), sdk.NewCoin("uatom", big66))
	}
	faults := drawFaults(e, false)
	faults.AbsentVote, faults.NilVote = 0, 0 // no downtime slashing: share/token rate stays 1
	if o.Prop == "C06" || o.Prop == "C15" {
		faults.TimeJump /= 2
	}
	var dss []dsSpec
	treas := world.NewAccount(o.Seed, "treasury")
	for i := 0; i < 4; i++ {
		dss = append(dss, dsSpec{Fee: sdk.NewCoins(), Treasury: treas, Exec: []byte(fmt.Sprintf("#!/bin/sh\necho %d", i))})
	}
	cfg.GenesisMods = append(cfg.GenesisMods, govGenesis(4*time.Second), quietEconomy(), oracleGenesis(e, op, dss), feedsGenesis(fp, allowed))
	extraVal := pushOver < 0 && e.Ch.Bool("cfg.stake.extraval", 350)
	if extraVal {
		// the active set is full with the genesis validators: a validator created during the run stays unbonded
		n := uint32(len(tokens))
		cfg.GenesisMods = append(cfg.GenesisMods, func(w *world.World, gs band.GenesisState) {
			cdc := w.Replicas[0].App.AppCodec()
			var sg stakingtypes.GenesisState
			cdc.MustUnmarshalJSON(gs[stakingtypes.ModuleName], &sg)
			sg.Params.MaxValidators = n
			gs[stakingtypes.ModuleName] = cdc.MustMarshalJSON(&sg)
		})
	}
	w, err := world.New(e.Ch, e.Log, e.St, cfg, o.Scratch)
	if err != nil {
		return err
	}
	e.W = w
	w.F = faults
	voters := w.Users[:4]
	ss := NewStakeShadow(w, allowed, fp.MaxCurrentFeeds)
	ss.Voters = voters
	e.Shared["stake.shadow"] = ss
	e.Shared["feeds.shadow"] = NewFeedsShadow()
	signals := []string{"CS:BTC-USD", "CS:ETH-USD", "CS:BAND-USD", "X", "CS:A-32-BYTE-SIGNAL-ID-012345678", "CS:A-32-BYTE-SIGNAL-ID-012345678X", "CS:SOL-USD", "CS:ATOM-USD", "s8"}
	lazy := map[string]int{}
	for _, v := range w.Vals {
		lazy[v.Val.String()] = []int{0, 0, 100, 400}[e.Ch.Intn("cfg.feeder.lazy", 4)]
	}
	oa := &OracleActor{MaxOpen: 3, ReqRate: e.Ch.Intn("cfg.feeds.reqrate", 250), Scripts: []int{scriptEcho, scriptSimple}, NumDS: len(dss), ActivateP: 1000, Byz: 0, ReactivateP: 250}
	sa := &StakeActor{Voters: voters, Rate: 150 + e.Ch.Intn("cfg.stake.rate", 500), Denoms: []string{"uusd", "uatom", "uband"}, VaultKeys: []string{"vaultA", "vaultB"}, Whale: whale}
	if extraVal {
		sa.ExtraOwner = w.Users[6]
	}
	if o.Prop == "C16" || os.Getenv("VERIF_DEBUG_MODULEOPS") != "" {
		sa.ModuleP = 60 + e.Ch.Intn("cfg.stake.module", 200)
	}
	va := &VoteActor{Voters: voters, Signals: signals, Rate: 150 + e.Ch.Intn("cfg.vote.rate", 500)}
	if o.Prop == "C07" {
		va.WrapP = e.Ch.Intn("cfg.vote.wrap", 120)
	}
	fa := &FeederActor{Lazy: lazy, ByzP: e.Ch.Intn("cfg.feeder.byz", 80), SkewP: e.Ch.Intn("cfg.feeder.skew", 80), Bystander: w.Users[7], PushOver: pushOver}
	e.Actors = append(e.Actors, oa, sa, va, fa)
	if e.Ch.Bool("cfg.restake.paramchurn", 300) {
		gov := &GovActor{}
		e.Shared["gov"] = gov
		e.Actors = append(e.Actors, gov, &RestakeParamChurn{Rate: 10 + e.Ch.Intn("cfg.restake.churnrate", 30)})
	}
	if o.Prop == "C15" && e.Ch.Bool("cfg.oracle.penaltychurn", 350) {
		gov := getGov(e)
		if gov == nil {
			gov = &GovActor{}
			e.Shared["gov"] = gov
			e.Actors = append(e.Actors, gov)
		}
		e.Actors = append(e.Actors, &OraclePenaltyChurn{Rate: 30 + e.Ch.Intn("cfg.oracle.penaltychurn.rate", 60)})
	}
	e.Monitors = append(e.Monitors, &C06{}, &C07{}, &C15{}, &C16{}, NewC01(), &C09{})
	if o.Prop == "C07" && e.Ch.Bool("cfg.feeds.paramchurn", 300) {
		// C07 quantifies over "all threshold/min/max interval parameters": governance moves them (and the feed limit) during the
		// run, edge values included. The other properties' reference models of this profile are written for intervals and
		// thresholds of ordinary magnitude, so these runs are judged by C07's monitor alone.
		gov := getGov(e)
		if gov == nil {
			gov = &GovActor{}
			e.Shared["gov"] = gov
			e.Actors = append(e.Actors, gov)
		}
		e.Actors = append(e.Actors, &FeedsParamChurn{Rate: 30 + e.Ch.Intn("cfg.feeds.paramchurn.rate", 70)})
		e.Monitors = []Monitor{&C07{}}
	}
	e.MaxSteps = e.Ch.Range("cfg.steps", 40, 110)
	if o.Thorough {
		e.MaxSteps = e.Ch.Range("cfg.steps", 60, 220)
	}
	e.DrainMax = 0
	return nil
}

// setupTunnel: feeds (votes, price submissions) + a genesis signing group + tunnels over TSS and IBC routes.
func setupTunnel(e *Env, o core.RunOpts) error {
	tokens := drawValTokens(e, 1, 5)
	op := drawOracleParams(e)
	fp := drawFeedsParams(e)
	fp.PriceQuorum = []string{"0.3", "0", "0.05"}[e.Ch.Intn("cfg.tunnel.quorum", 3)]
	fp.CurrentFeedsUpdateInterval = int64(e.Ch.Range("cfg.tunnel.updint", 1, 8))
	tp := drawTSSParams(e)
	bp := drawBandtssParams(e)
	tup := drawTunnelParams(e)
	e.Shared["oracle.genesis.params"] = op
	e.Shared["tss.genesis.params"] = tp
	e.Shared["bandtss.genesis.params"] = bp
	e.Shared["bandtss.genesis.current"] = uint64(1)
	cfg := world.Config{Seed: o.Seed, ChainID: "simband", ValTokens: tokens, NumUsers: 12, Replicas: 1, GenesisTime: baseTime}
	faults := drawFaults(e, false)
	faults.AbsentVote, faults.NilVote = 0, 0
	faults.TimeJump /= 2
	var accs []*world.Account
	for i := 0; i < cfg.NumUsers; i++ {
		accs = append(accs, world.NewAccount(o.Seed, fmt.Sprintf("user%d", i)))
	}
	size := 1 + e.Ch.Intn("cfg.tss.groupsize", 4)
	thr := uint64(1 + e.Ch.Intn("cfg.tss.threshold", size))
	noGroup := e.Ch.Bool("cfg.tunnel.nogroup", 80)
	pool := NewTSSPool(e, accs[:size])
	drawMemberBehaviour(e, pool, int(tp.MaxDESize), true)
	if e.Ch.Bool("cfg.tunnel.diligent", 600) {
		// a signing group that keeps its nonces stocked and signs promptly: most sends succeed, so that the due / content /
		// sequence rules are exercised on long packet sequences (the other runs exercise the failure paths)
		for _, m := range pool.Members {
			m.DETarget, m.DELazyP, m.Silent, m.SignW, m.ResetP = int(tp.MaxDESize), 1000, false, []int{100, 0, 0, 0, 0, 0}, 0
		}
	}
	e.Shared["tss.shadow"] = NewTSSShadow(pool)
	e.Shared["tss.pool"] = pool
	gcfg := tssGenesisCfg{TSSParams: tp, BandtssParams: bp, GroupMembers: pool.Members, Threshold: thr, InitialDEs: e.Ch.Intn("cfg.tss.initde", int(tp.MaxDESize)+1), GrindKey: e.Ch.Bool("cfg.tss.grindkey", 60)}
	if noGroup {
		gcfg.GroupMembers = nil
		e.Shared["bandtss.genesis.current"] = uint64(0)
	}
	var dss []dsSpec
	treas := world.NewAccount(o.Seed, "treasury")
	for i := 0; i < 2; i++ {
		dss = append(dss, dsSpec{Fee: sdk.NewCoins(), Treasury: treas, Exec: []byte("x")})
	}
	e.Desc("tunnel params: min_deposit=%s interval=[%d,%d] deviation=[%d,%d] max_signals=%d base_fee=%s; signing fee=%s group %d/%d (none=%v); feeds update_every=%d quorum=%s",
		tup.MinDeposit, tup.MinInterval, tup.MaxInterval, tup.MinDeviationBPS, tup.MaxDeviationBPS, tup.MaxSignals, tup.BasePacketFee, bp.FeePerSigner, thr, size, noGroup, fp.CurrentFeedsUpdateInterval, fp.PriceQuorum)
	cfg.GenesisMods = append(cfg.GenesisMods, govGenesis(4*time.Second), quietEconomy(), oracleGenesis(e, op, dss), feedsGenesis(fp, []string{"uusd"}), tssGenesis(e, gcfg), tunnelGenesis(tup))
	w, err := world.New(e.Ch, e.Log, e.St, cfg, o.Scratch)
	if err != nil {
		return err
	}
	e.W = w
	w.F = faults
	for i, m := range pool.Members {
		m.Acc = w.Users[i]
	}
	voters := w.Users[size : size+2]
	tunnelUsers := w.Users[size+2:]
	ss := NewStakeShadow(w, []string{"uusd"}, fp.MaxCurrentFeeds)
	ss.Voters = voters
	e.Shared["stake.shadow"] = ss
	e.Shared["feeds.shadow"] = NewFeedsShadow()
	e.Shared["tunnel.shadow"] = NewTunnelShadow(e, tup, tunnelUsers)
	signals := []string{"CS:BTC-USD", "CS:ETH-USD", "CS:BAND-USD", "X", "CS:A-32-BYTE-SIGNAL-ID-012345678", "CS:A-32-BYTE-SIGNAL-ID-012345678X", "CS:SOL-USD"}
	if !e.Ch.Bool("cfg.signals.long", 250) {
		// an id longer than 32 bytes cannot be ABI-encoded: every TSS packet carrying it fails; kept in a quarter of the runs only
		signals[5] = "CS:ATOM-USD"
	}
	lazy := map[string]int{}
	for _, v := range w.Vals {
		lazy[v.Val.String()] = []int{0, 0, 100}[e.Ch.Intn("cfg.feeder.lazy", 3)]
	}
	e.Actors = append(e.Actors,
		&OracleActor{MaxOpen: 3, ReqRate: map[bool]int{true: 250, false: 0}[o.Prop == "C11" || o.Prop == "C05"], Scripts: []int{scriptEcho, scriptSimple}, NumDS: len(dss), ActivateP: 1000, ReactivateP: 300,
			TSSEncoder: true, Requesters: voters, PolicyW: []int{70, 20, 10, 0, 0, 0, 0}},
		&StakeActor{Voters: voters, Rate: 0, Denoms: []string{"uusd"}, VaultKeys: []string{"vaultA"}},
		&VoteActor{Voters: voters, Signals: signals[:4+e.Ch.Intn("cfg.tunnel.nsignals", 3)], Rate: 150 + e.Ch.Intn("cfg.vote.rate", 300)},
		&FeederActor{Lazy: lazy, ByzP: 20, SkewP: 0},
		&TSSActor{Pool: pool, ByzP: 0, ReactP: 300, OverDEP: 0},
		&TunnelActor{Users: tunnelUsers, Signals: signals, Params: tup, Rate: 350 + e.Ch.Intn("cfg.tunnel.rate", 500), MaxTunnels: 1 + e.Ch.Intn("cfg.tunnel.max", 4)})
	if o.Prop == "C11" {
		e.Actors = append(e.Actors, &SigRequester{Rate: 200 + e.Ch.Intn("cfg.sigreq.rate", 400), MaxOpen: 4, Senders: voters, LimitW: []int{100, 0, 0, 0}, RichContent: true, Signals: signals})
	}
	if e.Ch.Bool("cfg.tunnel.paramchurn", 300) {
		gov := &GovActor{}
		e.Shared["gov"] = gov
		e.Actors = append(e.Actors, gov, &TunnelParamChurn{Rate: 10 + e.Ch.Intn("cfg.tunnel.churnrate", 30)})
	}
	if o.Prop == "C05" {
		e.Actors = append(e.Actors, &AssignFaults{Rate: 100 + e.Ch.Intn("cfg.tss.assignfaults.rate", 250)})
	}
	if (o.Prop == "C08" || o.Prop == "C17") && e.Ch.Bool("cfg.tunnel.blackout", 300) {
		gov := getGov(e)
		if gov == nil {
			gov = &GovActor{}
			e.Shared["gov"] = gov
			e.Actors = append(e.Actors, gov)
		}
		e.Actors = append(e.Actors, &FeedsBlackout{At: 12 + e.Ch.Intn("cfg.tunnel.blackout.at", 40), Len: 10 + e.Ch.Intn("cfg.tunnel.blackout.len", 30)})
	}
	e.Monitors = append(e.Monitors, &C08{}, &C17{}, &C06{}, &C07{}, &C05{}, &C10{}, &C09{WithTSS: true}, &C11{}, &C13Tunnel{})
	e.MaxSteps = e.Ch.Range("cfg.steps", 50, 120)
	if o.Thorough {
		e.MaxSteps = e.Ch.Range("cfg.steps", 70, 240)
	}
	e.DrainMax = 0
	return nil
}

// setupEconomy: block rewards switched on (inflation, fees in several denoms), signing group with varying eligibility,
// validators with varying oracle activity, absent voters.
func setupEconomy(e *Env, o core.RunOpts) error {
	tokens := drawValTokens(e, 1, 7)
	op := drawOracleParams(e)
	op.OracleRewardPercentage = []uint64{70, 0, 100, 1, 33, 50}[e.Ch.Intn("cfg.eco.opct", 6)]
	tp := drawTSSParams(e)
	bp := drawBandtssParams(e)
	bp.RewardPercentage = []uint64{10, 0, 100, 1, 50}[e.Ch.Intn("cfg.eco.tpct", 5)]
	tax := []string{"0.02", "0", "1", "0.5", "0.000000000000000001"}[e.Ch.Intn("cfg.eco.tax", 5)]
	e.Shared["oracle.genesis.params"] = op
	e.Shared["tss.genesis.params"] = tp
	e.Shared["bandtss.genesis.params"] = bp
	e.Shared["bandtss.genesis.current"] = uint64(1)
	cfg := world.Config{Seed: o.Seed, ChainID: "simband", ValTokens: tokens, NumUsers: 10, Replicas: 1, GenesisTime: baseTime}
	faults := drawFaults(e, false)
	faults.AbsentVote, faults.NilVote = 250, 100
	var accs []*world.Account
	for i := 0; i < cfg.NumUsers; i++ {
		accs = append(accs, world.NewAccount(o.Seed, fmt.Sprintf("user%d", i)))
	}
	size := 1 + e.Ch.Intn("cfg.tss.groupsize", 5)
	thr := uint64(1 + e.Ch.Intn("cfg.tss.threshold", size))
	pool := NewTSSPool(e, accs[:size])
	drawMemberBehaviour(e, pool, int(tp.MaxDESize), true)
	e.Shared["tss.shadow"] = NewTSSShadow(pool)
	e.Shared["tss.pool"] = pool
	var dss []dsSpec
	treas := world.NewAccount(o.Seed, "treasury")
	dss = append(dss, dsSpec{Fee: sdk.NewCoins(), Treasury: treas, Exec: []byte("x")})
	e.Desc("economy: oracle reward %d%% tss reward %d%% community tax %s; group %d/%d", op.OracleRewardPercentage, bp.RewardPercentage, tax, thr, size)
	taxMod := func(w *world.World, gs band.GenesisState) {
		cdc := w.Replicas[0].App.AppCodec()
		var dg distrtypes.GenesisState
		cdc.MustUnmarshalJSON(gs[distrtypes.ModuleName], &dg)
		dg.Params.CommunityTax = math.LegacyMustNewDecFromStr(tax)
		gs[distrtypes.ModuleName] = cdc.MustMarshalJSON(&dg)
	}
	slashing := e.Ch.Bool("cfg.eco.slashing", 300)
	slashMod := func(w *world.World, gs band.GenesisState) {
		if !slashing {
			return
		}
		// short downtime window: validators that miss blocks are slashed and jailed during the run, also while delegations unbond
		cdc := w.Replicas[0].App.AppCodec()
		var sg slashingtypes.GenesisState
		cdc.MustUnmarshalJSON(gs[slashingtypes.ModuleName], &sg)
		sg.Params.SignedBlocksWindow = int64(e.Ch.Range("cfg.eco.window", 5, 20))
		sg.Params.MinSignedPerWindow = math.LegacyNewDecWithPrec(7, 1)
		sg.Params.DowntimeJailDuration = 5 * time.Second
		sg.Params.SlashFractionDowntime = math.LegacyNewDecWithPrec(int64(1+e.Ch.Intn("cfg.eco.slashpct", 20)), 2)
		gs[slashingtypes.ModuleName] = cdc.MustMarshalJSON(&sg)
	}
	cfg.GenesisMods = append(cfg.GenesisMods, govGenesis(4*time.Second), taxMod, slashMod, oracleGenesis(e, op, dss),
		tssGenesis(e, tssGenesisCfg{TSSParams: tp, BandtssParams: bp, GroupMembers: pool.Members, Threshold: thr, InitialDEs: e.Ch.Intn("cfg.tss.initde", int(tp.MaxDESize)+1), GrindKey: e.Ch.Bool("cfg.tss.grindkey", 60)}))
	w, err := world.New(e.Ch, e.Log, e.St, cfg, o.Scratch)
	if err != nil {
		return err
	}
	e.W = w
	w.F = faults
	for i, m := range pool.Members {
		m.Acc = w.Users[i]
	}
	e.Actors = append(e.Actors,
		&OracleActor{MaxOpen: 2, ReqRate: e.Ch.Intn("cfg.eco.reqrate", 200), Scripts: []int{scriptEcho}, NumDS: 1, ActivateP: 600 + e.Ch.Intn("cfg.eco.activate", 400), ReactivateP: 150},
		&TSSActor{Pool: pool, ByzP: 0, ReactP: 200, OverDEP: 0},
		&SigRequester{Rate: e.Ch.Intn("cfg.sigreq.rate", 400), MaxOpen: 3, Senders: w.Users[size:], LimitW: []int{100, 0, 0, 0}},
		&FeeActor{Users: w.Users[size:], Rate: 300 + e.Ch.Intn("cfg.eco.feerate", 400)})
	if slashing {
		e.Actors = append(e.Actors, &DelegationChurn{Users: w.Users[size:], Rate: 500})
	}
	e.Monitors = append(e.Monitors, &C14{}, &C05{}, &C10{}, NewC01(), &C09{WithTSS: true})
	e.MaxSteps = e.Ch.Range("cfg.steps", 40, 110)
	if o.Thorough {
		e.MaxSteps = e.Ch.Range("cfg.steps", 60, 220)
	}
	return nil
}

// setupRelay: oracle results accumulate while the conductor varies who signs, rounds, vote timestamps, chain id and heights;
// the real proof service answers over a stub node.
func setupRelay(e *Env, o core.RunOpts) error {
	tokens := drawValTokens(e, 1, 7)
	op := drawOracleParams(e)
	op.ExpirationBlockCount = uint64(e.Ch.Range("cfg.relay.exp", 2, 5))
	e.Shared["oracle.genesis.params"] = op
	ids := []string{"b", "band-laozi", "simband", "laozi-mainnet", "band-testnet-0017"}
	heights := []int64{1, 1, 120, 127, 16380, 2097150, 34359738360, 1099511627770}
	cfg := world.Config{Seed: o.Seed, ChainID: ids[e.Ch.Intn("cfg.relay.chainid", len(ids))], ValTokens: tokens, NumUsers: 5, Replicas: 1, GenesisTime: baseTime,
		InitialHeight: heights[e.Ch.Intn("cfg.relay.initheight", len(heights))]}
	e.Desc("relay: chain id %q initial height %d", cfg.ChainID, cfg.InitialHeight)
	faults := world.Faults{TxDelay: 50, Reorder: 300, AbsentVote: 300, NilVote: 150, RoundGT0: 300, SubSecond: 150, TimeJump: 20}
	var dss []dsSpec
	treas := world.NewAccount(o.Seed, "treasury")
	for i := 0; i < 4; i++ {
		dss = append(dss, dsSpec{Fee: sdk.NewCoins(), Treasury: treas, Exec: []byte("x")})
	}
	cfg.GenesisMods = append(cfg.GenesisMods, govGenesis(4*time.Second), oracleGenesis(e, op, dss))
	w, err := world.New(e.Ch, e.Log, e.St, cfg, o.Scratch)
	if err != nil {
		return err
	}
	e.W = w
	w.F = faults
	e.Actors = append(e.Actors, &OracleActor{MaxOpen: 6, ReqRate: 500 + e.Ch.Intn("cfg.relay.reqrate", 400), Scripts: []int{scriptEcho, scriptSimple, scriptNoRet}, NumDS: len(dss), ActivateP: 1000,
		ReactivateP: 200, PolicyW: []int{60, 20, 10, 0, 0, 0, 10}})
	if e.Ch.Bool("cfg.relay.valsetchange", 500) {
		// delegations move voting power: the validator set changes, so a header's validators hash and next-validators hash differ
		e.Actors = append(e.Actors, &DelegationChurn{Users: w.Users, Rate: 300, Big: true})
	}
	e.Monitors = append(e.Monitors, &C12{}, NewC01(), &C09{})
	e.MaxSteps = e.Ch.Range("cfg.steps", 40, 120)
	if o.Thorough {
		e.MaxSteps = e.Ch.Range("cfg.steps", 80, 300)
	}
	return nil
}

// setupFuzz: every honest actor of every profile, the adversarial message generator, parameter churn through governance,
// several replicas with crash/restart, downtime jailing (validator-set changes).
func setupFuzz(e *Env, o core.RunOpts) error {
	tokens := drawValTokens(e, 2, 6)
	op := drawOracleParams(e)
	op.OracleRewardPercentage = []uint64{70, 0, 100, 1, 33}[e.Ch.Intn("cfg.eco.opct", 5)]
	fp := drawFeedsParams(e)
	fp.CurrentFeedsUpdateInterval = int64(e.Ch.Range("cfg.tunnel.updint", 1, 8))
	tp := drawTSSParams(e)
	tp.CreationPeriod = uint64(e.Ch.Range("cfg.tss.creation2", 8, 30))
	bp := drawBandtssParams(e)
	bp.RewardPercentage = []uint64{10, 0, 100, 50}[e.Ch.Intn("cfg.eco.tpct", 4)]
	tup := drawTunnelParams(e)
	if e.Ch.Bool("cfg.fuzz.genesis.edge", 250) {
		// one numeric parameter of one module already has an edge value in the genesis file (accepted by the module's validation):
		// the whole history runs under it, not only the part after a governance proposal
		var what string
		var ok bool
		switch e.Ch.Intn("cfg.fuzz.genesis.edge.module", 5) {
		case 0:
			cp := op
			if what, ok = setExtreme(e, &cp); ok && cp.Validate() == nil && cp.OracleRewardPercentage == op.OracleRewardPercentage {
				op = cp
			} else {
				ok = false
			}
		case 1:
			cp := tp
			if what, ok = setExtreme(e, &cp); ok && cp.Validate() == nil {
				tp = cp
			} else {
				ok = false
			}
		case 2:
			cp := bp
			if what, ok = setExtreme(e, &cp); ok && cp.Validate() == nil && cp.RewardPercentage == bp.RewardPercentage {
				bp = cp
			} else {
				ok = false
			}
		case 3:
			cp := fp
			if what, ok = setExtreme(e, &cp); ok && cp.Validate() == nil {
				fp = cp
			} else {
				ok = false
			}
		case 4:
			cp := tup
			if what, ok = setExtreme(e, &cp); ok && cp.Validate() == nil {
				tup = cp
			} else {
				ok = false
			}
		}
		if ok {
			e.St.Fault("genesis_parameter_at_an_edge_value")
			e.Desc("genesis edge-value parameter: %s", what)
			e.Log.Add("genesis edge-value parameter: %s", what)
		}
	}
	harnessDE := int(tp.MaxDESize)
	if tp.MaxDESize > 40 {
		harnessDE = 40 // what the harness's members publish; the chain's limit may be anything
	}
	e.Shared["oracle.genesis.params"] = op
	e.Shared["tss.genesis.params"] = tp
	e.Shared["bandtss.genesis.params"] = bp
	e.Shared["bandtss.genesis.current"] = uint64(1)
	replicas := 2
	if o.Thorough || e.Ch.Bool("cfg.fuzz.3replicas", 250) {
		replicas = 3
	}
	cfg := world.Config{Seed: o.Seed, ChainID: "simband", ValTokens: tokens, NumUsers: 14, Replicas: replicas, GenesisTime: baseTime}
	faults := drawFaults(e, true)
	if faults.Crash == 0 && e.Ch.Bool("cfg.fuzz.crash", 700) {
		faults.Crash = 25
	}
	var accs []*world.Account
	for i := 0; i < cfg.NumUsers; i++ {
		accs = append(accs, world.NewAccount(o.Seed, fmt.Sprintf("user%d", i)))
	}
	poolSize := 6
	size := 1 + e.Ch.Intn("cfg.tss.groupsize", 4)
	thr := uint64(1 + e.Ch.Intn("cfg.tss.threshold", size))
	pool := NewTSSPool(e, accs[:poolSize])
	drawMemberBehaviour(e, pool, harnessDE, true)
	e.Shared["tss.shadow"] = NewTSSShadow(pool)
	e.Shared["tss.pool"] = pool
	gcfg := tssGenesisCfg{TSSParams: tp, BandtssParams: bp, GroupMembers: pool.Members[:size], Threshold: thr, InitialDEs: harnessDE}
	var dss []dsSpec
	treas := world.NewAccount(o.Seed, "treasury")
	for i := 0; i < 3; i++ {
		dss = append(dss, dsSpec{Fee: sdk.NewCoins(sdk.NewInt64Coin("uband", int64(i))), Treasury: treas, Exec: []byte("x")})
	}
	slashMod := func(w *world.World, gs band.GenesisState) {
		cdc := w.Replicas[0].App.AppCodec()
		var sg slashingtypes.GenesisState
		cdc.MustUnmarshalJSON(gs[slashingtypes.ModuleName], &sg)
		sg.Params.SignedBlocksWindow = int64(e.Ch.Range("cfg.fuzz.window", 6, 30))
		sg.Params.MinSignedPerWindow = math.LegacyNewDecWithPrec(5, 1)
		sg.Params.DowntimeJailDuration = 5 * time.Second
		gs[slashingtypes.ModuleName] = cdc.MustMarshalJSON(&sg)
	}
	e.Desc("fuzz: %d replicas, group %d/%d of pool %d, crash=%d", replicas, thr, size, poolSize, faults.Crash)
	cfg.GenesisMods = append(cfg.GenesisMods, govGenesis(4*time.Second), slashMod, oracleGenesis(e, op, dss), feedsGenesis(fp, []string{"uusd"}), tssGenesis(e, gcfg), tunnelGenesis(tup))
	w, err := world.New(e.Ch, e.Log, e.St, cfg, o.Scratch)
	if err != nil {
		return err
	}
	e.W = w
	w.F = faults
	for i, m := range pool.Members {
		m.Acc = w.Users[i]
	}
	voters := w.Users[poolSize : poolSize+3]
	others := w.Users[poolSize+3:]
	ss := NewStakeShadow(w, []string{"uusd"}, fp.MaxCurrentFeeds)
	ss.Voters = voters
	e.Shared["stake.shadow"] = ss
	e.Shared["feeds.shadow"] = NewFeedsShadow()
	e.Shared["tunnel.shadow"] = NewTunnelShadow(e, tup, others)
	gov := &GovActor{}
	e.Shared["gov"] = gov
	dkg := &DKGActor{Pool: pool, DeviateP: 100, SilentP: 20, NonMemberP: 30}
	e.Shared["dkg.actor"] = dkg
	signals := []string{"CS:BTC-USD", "CS:ETH-USD", "CS:BAND-USD", "X", "CS:A-32-BYTE-SIGNAL-ID-012345678", "CS:A-32-BYTE-SIGNAL-ID-012345678X", "CS:SOL-USD"}
	if !e.Ch.Bool("cfg.signals.long", 250) {
		// an id longer than 32 bytes cannot be ABI-encoded: every TSS packet carrying it fails; kept in a quarter of the runs only
		signals[5] = "CS:ATOM-USD"
	}
	lazy := map[string]int{}
	for _, v := range w.Vals {
		lazy[v.Val.String()] = []int{0, 100, 400}[e.Ch.Intn("cfg.feeder.lazy", 3)]
	}
	e.Actors = append(e.Actors, gov,
		&OracleActor{MaxOpen: 3, ReqRate: 200, Scripts: []int{scriptEcho, scriptSimple, scriptNoRet, scriptTrap, scriptBadPre, scriptNoRaw, scriptEmpty, scriptProbe, scriptDesc}, NumDS: len(dss), ActivateP: 900, ReactivateP: 250, Byz: 150,
			TSSEncoder: true, Requesters: voters, FeeLimit: sdk.NewCoins(sdk.NewInt64Coin("uband", 1000), sdk.NewInt64Coin("uusd", 1000))},
		&StakeActor{Voters: voters, Rate: 200, Denoms: []string{"uusd", "uatom", "uband"}, VaultKeys: []string{"vaultA"}},
		&VoteActor{Voters: voters, Signals: signals, Rate: 250, WrapP: 60},
		&FeederActor{Lazy: lazy, ByzP: 60, SkewP: 40},
		&TSSActor{Pool: pool, ByzP: 120, ReactP: 300, OverDEP: 60},
		dkg,
		&TransitionDriver{Pool: pool, Rate: 120, ForceP: 200, MaxSize: 3, OverlapP: 150},
		&SigRequester{Rate: 250, MaxOpen: 4, Senders: voters, LimitW: []int{70, 10, 10, 10}, RichContent: true, Signals: signals, RollbackP: 60},
		&TunnelActor{Users: others, Signals: signals, Params: tup, Rate: 350, MaxTunnels: 3},
		&FeeActor{Users: others, Rate: 150},
		&FuzzActor{Accounts: append(append([]*world.Account{}, w.Users...), w.Vals[0].Account), Rate: 300 + e.Ch.Intn("cfg.fuzz.rate", 500)},
		&ParamChurn{Rate: 40 + e.Ch.Intn("cfg.fuzz.churn", 80)})
	e.Monitors = append(e.Monitors, &C02{})
	e.MaxSteps = e.Ch.Range("cfg.steps", 60, 160)
	if o.Thorough {
		e.MaxSteps = e.Ch.Range("cfg.steps", 80, 260)
	}
	return nil
}
