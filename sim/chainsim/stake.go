package chainsim

import (
	sdksecp "github.com/cosmos/cosmos-sdk/crypto/keys/secp256k1"
	banktypes "github.com/cosmos/cosmos-sdk/x/bank/types"
	authtypes "github.com/cosmos/cosmos-sdk/x/auth/types"
	"fmt"
	"math/big"
	"sort"

	"cosmossdk.io/math"

	sdk "github.com/cosmos/cosmos-sdk/types"
	stakingtypes "github.com/cosmos/cosmos-sdk/x/staking/types"

	band "github.com/bandprotocol/chain/v3/app"
	feedstypes "github.com/bandprotocol/chain/v3/x/feeds/types"
	restaketypes "github.com/bandprotocol/chain/v3/x/restake/types"

	"verifsim/world"
)

// ---------------------------------------------------------------------------------------------
// StakeShadow: model of delegations, restaked coins, locks and vaults, fed by the operations the simulator sent and
// their result codes. Shared by C07 and C16 (advanced once per block, journal of per-operation facts).

type stakeOpMeta struct {
	Kind   string // delegate, undelegate, redelegate, stake, unstake
	Addr   *world.Account
	Val    string // validator operator (src for redelegate)
	Dst    string
	Amount math.Int
	Coins  sdk.Coins
	Aim    string // how the amount was aimed (free, at_lock, one_below_lock, too_much)
}

type voteMeta struct {
	Msg  *feedstypes.MsgVote
	Kind string
}

type jStakeOp struct {
	Tx        *world.TxRecord
	Meta      *stakeOpMeta
	PowerPre  math.Int
	PowerPost math.Int // total power if the operation is applied
	MaxLock   math.Int // largest lock over active vaults at that moment
	FeedsLock math.Int // the lock the voter's standing vote holds under the feeds vault at that moment (zero if none)
	Possible  bool     // the withdrawal is possible at all (amount available)
	Why       string
}

type jVote struct {
	Tx       *world.TxRecord
	Meta     *voteMeta
	Power    math.Int // voter's total power at that moment
	TrueSum  *big.Int
	Valid    bool // passes the stateless rules and the max-signals rule
	Why      string
	VaultOK  bool
	MaxFeedsBefore, MaxFeedsAfter uint64
}

type jModuleOp struct {
	Kind   string // lock, deactivate_vault
	Addr   string
	Key    string
	Power  math.Int
	Err    error
	PowerAt math.Int
	VaultKnown, VaultActive bool
}

type StakeShadow struct {
	height   int64
	Deleg    map[string]map[string]math.Int
	Stakes   map[string]sdk.Coins
	Allowed  []string
	Locks    map[string]map[string]math.Int
	Vaults   map[string]bool // key -> active (present = created)
	Votes    map[string][]feedstypes.Signal
	MaxFeeds uint64
	JOps     []jStakeOp
	JVotes   []jVote
	JMod     []jModuleOp
	pendingMod []jModuleOp
	Voters   []*world.Account
}

func NewStakeShadow(w *world.World, allowed []string, maxFeeds uint64) *StakeShadow {
	s := &StakeShadow{Deleg: map[string]map[string]math.Int{}, Stakes: map[string]sdk.Coins{}, Allowed: allowed, Locks: map[string]map[string]math.Int{},
		Vaults: map[string]bool{}, Votes: map[string][]feedstypes.Signal{}, MaxFeeds: maxFeeds}
	for _, v := range w.Vals {
		s.Deleg[v.Addr.String()] = map[string]math.Int{v.Val.String(): v.Tokens}
	}
	return s
}

func getStake(e *Env) *StakeShadow { return e.Shared["stake.shadow"].(*StakeShadow) }

func (s *StakeShadow) Delegated(addr string) math.Int {
	t := math.ZeroInt()
	for _, v := range sortedKeysInt2(s.Deleg[addr]) {
		t = t.Add(s.Deleg[addr][v])
	}
	return t
}

func sortedKeysInt2(m map[string]math.Int) []string {
	o := make([]string, 0, len(m))
	for k := range m {
		o = append(o, k)
	}
	sort.Strings(o)
	return o
}

func (s *StakeShadow) StakedPower(addr string) math.Int {
	t := math.ZeroInt()
	for _, d := range s.Allowed {
		t = t.Add(s.Stakes[addr].AmountOf(d))
	}
	return t
}

func (s *StakeShadow) TotalPower(addr string) math.Int { return s.Delegated(addr).Add(s.StakedPower(addr)) }

// MaxActiveLock is the largest lock of the account over vaults that are still active.
func (s *StakeShadow) MaxActiveLock(addr string) math.Int {
	mx := math.ZeroInt()
	for _, k := range sortedKeysInt2(s.Locks[addr]) {
		if s.Vaults[k] && s.Locks[addr][k].GT(mx) {
			mx = s.Locks[addr][k]
		}
	}
	return mx
}

func trueSum(sigs []feedstypes.Signal) *big.Int {
	t := new(big.Int)
	for _, x := range sigs {
		t.Add(t, big.NewInt(x.Power))
	}
	return t
}

// ModuleOp applies a keeper-level operation between blocks on all replicas and journals it for the next Advance.
func (s *StakeShadow) ModuleLock(e *Env, addr *world.Account, key string, power math.Int) {
	a := addr.Addr
	err := e.W.ApplyInterOp(func(app *band.BandApp, ctx sdk.Context) error {
		return app.RestakeKeeper.SetLockedPower(ctx, a, key, power)
	})
	act, known := s.Vaults[key]
	j := jModuleOp{Kind: "lock", Addr: a.String(), Key: key, Power: power, Err: err, PowerAt: s.TotalPower(a.String()), VaultKnown: known, VaultActive: act}
	if err == nil {
		if !known {
			s.Vaults[key] = true
		}
		if s.Locks[a.String()] == nil {
			s.Locks[a.String()] = map[string]math.Int{}
		}
		s.Locks[a.String()][key] = power
	}
	s.pendingMod = append(s.pendingMod, j)
	e.Log.Add("module op: SetLockedPower(%s, %s, %s) err=%v", addr.Name, key, power, err)
}

func (s *StakeShadow) ModuleDeactivateVault(e *Env, key string) {
	err := e.W.ApplyInterOp(func(app *band.BandApp, ctx sdk.Context) error {
		return app.RestakeKeeper.DeactivateVault(ctx, key)
	})
	act, known := s.Vaults[key]
	j := jModuleOp{Kind: "deactivate_vault", Key: key, Err: err, VaultKnown: known, VaultActive: act}
	if err == nil {
		s.Vaults[key] = false
	}
	s.pendingMod = append(s.pendingMod, j)
	e.Log.Add("module op: DeactivateVault(%s) err=%v", key, err)
}

func (s *StakeShadow) Advance(e *Env, blk *world.BlockRecord) {
	if s.height == blk.Height {
		return
	}
	s.height = blk.Height
	s.JOps, s.JVotes = nil, nil
	s.JMod, s.pendingMod = s.pendingMod, nil
	ctx := e.Ctx()
	maxFeedsAfter := e.App().FeedsKeeper.GetParams(ctx).MaxCurrentFeeds
	for _, tx := range blk.Txs {
		switch meta := tx.Intent.Meta.(type) {
		case *stakeOpMeta:
			addr := meta.Addr.Addr.String()
			j := jStakeOp{Tx: tx, Meta: meta, PowerPre: s.TotalPower(addr), MaxLock: s.MaxActiveLock(addr), FeedsLock: math.ZeroInt(), Possible: true}
			if l, ok := s.Locks[addr][feedstypes.ModuleName]; ok && s.Vaults[feedstypes.ModuleName] {
				j.FeedsLock = l
			}
			post := j.PowerPre
			if s.Deleg[addr] == nil {
				s.Deleg[addr] = map[string]math.Int{}
			}
			cur, has := s.Deleg[addr][meta.Val]
			if !has {
				cur = math.ZeroInt()
			}
			switch meta.Kind {
			case "delegate":
				post = post.Add(meta.Amount)
			case "undelegate", "redelegate":
				if meta.Amount.GT(cur) || !meta.Amount.IsPositive() {
					j.Possible, j.Why = false, "exceeds_delegation"
				}
				if meta.Kind == "undelegate" {
					post = post.Sub(meta.Amount)
				}
			case "stake":
				for _, c := range meta.Coins {
					if !contains(s.Allowed, c.Denom) {
						j.Possible, j.Why = false, "denom_not_allowed"
					}
				}
				for _, d := range s.Allowed {
					post = post.Add(meta.Coins.AmountOf(d))
				}
			case "unstake":
				if !s.Stakes[addr].IsAllGTE(meta.Coins) {
					j.Possible, j.Why = false, "exceeds_stake"
				}
				for _, d := range s.Allowed {
					post = post.Sub(meta.Coins.AmountOf(d))
				}
			}
			j.PowerPost = post
			s.JOps = append(s.JOps, j)
			if tx.OK() {
				switch meta.Kind {
				case "delegate":
					s.Deleg[addr][meta.Val] = cur.Add(meta.Amount)
				case "undelegate":
					s.Deleg[addr][meta.Val] = cur.Sub(meta.Amount)
				case "redelegate":
					s.Deleg[addr][meta.Val] = cur.Sub(meta.Amount)
					d, ok := s.Deleg[addr][meta.Dst]
					if !ok {
						d = math.ZeroInt()
					}
					s.Deleg[addr][meta.Dst] = d.Add(meta.Amount)
				case "stake":
					s.Stakes[addr] = s.Stakes[addr].Add(meta.Coins...)
				case "unstake":
					if s.Stakes[addr].IsAllGTE(meta.Coins) { // otherwise the chain accepted what is impossible: C16's monitor reports it
						s.Stakes[addr] = s.Stakes[addr].Sub(meta.Coins...)
					}
				}
				if v, ok := s.Deleg[addr][meta.Val]; ok && v.IsZero() {
					delete(s.Deleg[addr], meta.Val)
				}
			}
		case *voteMeta:
			addr := meta.Msg.Voter
			jv := jVote{Tx: tx, Meta: meta, Power: s.TotalPower(addr), TrueSum: trueSum(meta.Msg.Signals), Valid: true, MaxFeedsBefore: s.MaxFeeds, MaxFeedsAfter: maxFeedsAfter}
			seen := map[string]bool{}
			for _, sg := range meta.Msg.Signals {
				switch {
				case sg.ID == "" || sg.Power <= 0 || len(sg.ID) > int(feedstypes.MaxSignalIDCharacters):
					jv.Valid, jv.Why = false, "invalid_signal"
				case seen[sg.ID]:
					jv.Valid, jv.Why = false, "duplicate_signal"
				}
				seen[sg.ID] = true
			}
			act, known := s.Vaults[feedstypes.ModuleName]
			jv.VaultOK = !known || act
			s.JVotes = append(s.JVotes, jv)
			if tx.OK() {
				s.Votes[addr] = meta.Msg.Signals
				if !known {
					s.Vaults[feedstypes.ModuleName] = true
				}
				if s.Locks[addr] == nil {
					s.Locks[addr] = map[string]math.Int{}
				}
				// an accepted vote locks the true (unbounded) sum of its powers; whether the chain recorded that is C07's check
				s.Locks[addr][feedstypes.ModuleName] = math.NewIntFromBigInt(jv.TrueSum)
			}
		}
	}
	s.MaxFeeds = maxFeedsAfter
	s.Allowed = e.App().RestakeKeeper.GetParams(ctx).AllowedDenoms
}

func contains(xs []string, x string) bool {
	for _, y := range xs {
		if y == x {
			return true
		}
	}
	return false
}

// ---------------------------------------------------------------------------------------------
// Actors

type StakeActor struct {
	Voters    []*world.Account
	Rate      int
	inited    bool
	inited2   bool
	Denoms    []string // denoms tried for restaking (allowed and not)
	ModuleP   int      // permille per step of a module-level lock / vault operation
	VaultKeys []string
	Whale     bool // the first voter restakes an amount at the 2^63 / 2^64 boundaries (needs matching genesis balances)
	// ExtraOwner, when set, creates one more validator at the start of the run. The profile has filled the validator set
	// (max_validators = number of genesis validators) and delegations to it stay small, so it remains UNBONDED for the whole
	// run: power delegated to a validator outside the active set counts, and locks, like any other.
	ExtraOwner *world.Account
	extra      *world.Validator
	extraTotal int64
}

func (a *StakeActor) OnBlock(e *Env, blk *world.BlockRecord) {}

func (a *StakeActor) submitDelegate(e *Env, u *world.Account, val *world.Validator, amt int64) {
	m := stakingtypes.NewMsgDelegate(u.Addr.String(), val.Val.String(), sdk.NewInt64Coin("uband", amt))
	e.Submit(u, "delegate", &stakeOpMeta{Kind: "delegate", Addr: u, Val: val.Val.String(), Amount: math.NewInt(amt), Aim: "free"}, m)
}

func (a *StakeActor) Act(e *Env) {
	w := e.W
	sh := getStake(e)
	if !a.inited {
		a.inited = true
		if a.ExtraOwner != nil {
			pk := sdksecp.GenPrivKeyFromSecret([]byte("extra-validator-" + a.ExtraOwner.Addr.String())).PubKey()
			rates := stakingtypes.NewCommissionRates(math.LegacyNewDecWithPrec(1, 1), math.LegacyNewDecWithPrec(2, 1), math.LegacyNewDecWithPrec(1, 2))
			msg, err := stakingtypes.NewMsgCreateValidator(sdk.ValAddress(a.ExtraOwner.Addr).String(), pk, sdk.NewInt64Coin("uband", 1000), stakingtypes.NewDescription("extra", "", "", "", ""), rates, math.NewInt(1))
			if err != nil {
				panic(err)
			}
			e.Submit(a.ExtraOwner, "create_validator", nil, msg)
			e.St.Fault("validator_created_outside_the_active_set")
			a.extra = &world.Validator{Account: a.ExtraOwner, Tokens: math.NewInt(1000)}
			return // delegations start with the next step, when the validator exists
		}
	}
	if !a.inited2 {
		a.inited2 = true
		for _, u := range a.Voters {
			if a.extra != nil && e.Ch.Bool("stake.init.extra", 500) {
				amt := int64(500 + e.Ch.Intn("stake.init.extra.amt", 5000))
				a.extraTotal += amt
				a.submitDelegate(e, u, a.extra, amt)
			}
			n := 1 + e.Ch.Intn("stake.init.nvals", min(3, len(w.Vals)))
			for i := 0; i < n; i++ {
				a.submitDelegate(e, u, w.Vals[(i+e.Ch.Intn("stake.init.val", len(w.Vals)))%len(w.Vals)], int64(500+e.Ch.Intn("stake.init.amt", 5000)))
			}
			if a.Whale && u == a.Voters[0] && len(sh.Allowed) > 0 {
				two63 := new(big.Int).Lsh(big.NewInt(1), 63)
				two64 := new(big.Int).Lsh(big.NewInt(1), 64)
				base := []*big.Int{two63, two64}[e.Ch.Intn("stake.whale.base", 2)]
				amt := math.NewIntFromBigInt(new(big.Int).Add(base, big.NewInt(int64(e.Ch.Intn("stake.whale.off", 3))-1)))
				c := sdk.NewCoins(sdk.NewCoin(sh.Allowed[0], amt))
				e.Submit(u, "restake_stake", &stakeOpMeta{Kind: "stake", Addr: u, Coins: c, Aim: "free"}, restaketypes.NewMsgStake(u.Addr, c))
				e.St.Probe("restake_of_an_amount_at_the_2^63_or_2^64_boundary")
				continue
			}
			if e.Ch.Bool("stake.init.restake", 600) && len(sh.Allowed) > 0 {
				c := sdk.NewCoins(sdk.NewInt64Coin(sh.Allowed[0], int64(100+e.Ch.Intn("stake.init.restake.amt", 3000))))
				e.Submit(u, "restake_stake", &stakeOpMeta{Kind: "stake", Addr: u, Coins: c, Aim: "free"}, restaketypes.NewMsgStake(u.Addr, c))
			}
		}
		return
	}
	if e.Draining {
		return
	}
	if a.ModuleP > 0 && e.Ch.Bool("stake.module", a.ModuleP) {
		u := a.Voters[e.Ch.Intn("stake.module.who", len(a.Voters))]
		key := a.VaultKeys[e.Ch.Intn("stake.module.key", len(a.VaultKeys))]
		if e.Ch.Bool("stake.module.deactivate", 150) {
			e.St.Fault("vault_deactivated")
			sh.ModuleDeactivateVault(e, key)
		} else {
			tp := sh.TotalPower(u.Addr.String())
			var p math.Int
			switch e.Ch.Intn("stake.module.power", 4) {
			case 0:
				p = tp
			case 1:
				p = tp.AddRaw(1)
			case 2:
				p = tp.QuoRaw(2)
			default:
				p = math.NewInt(int64(e.Ch.Intn("stake.module.powern", 4000)))
			}
			sh.ModuleLock(e, u, key, p)
		}
	}
	if !e.Ch.Bool("stake.op", a.Rate) {
		return
	}
	u := a.Voters[e.Ch.Intn("stake.who", len(a.Voters))]
	addr := u.Addr.String()
	lock := sh.MaxActiveLock(addr)
	total := sh.TotalPower(addr)
	slack := total.Sub(lock) // what can be withdrawn
	// aim amounts at the boundary: exactly the slack, one more, a fraction, or anything
	aimAmt := func(avail math.Int) (math.Int, string) {
		switch e.Ch.Weighted("stake.aim", []int{30, 25, 25, 10, 10}) {
		case 0:
			if avail.IsPositive() {
				return math.NewInt(1 + int64(e.Ch.Intn("stake.aim.free", int(min64(clampInt64(avail), 1<<30))))), "free"
			}
			return math.NewInt(1), "free"
		case 1:
			if slack.IsPositive() {
				return slack, "at_lock"
			}
			return math.NewInt(1), "one_below_lock"
		case 2:
			return slack.AddRaw(1), "one_below_lock"
		case 3:
			return avail.AddRaw(1), "too_much"
		}
		return avail, "all"
	}
	switch e.Ch.Weighted("stake.kind", []int{20, 30, 10, 15, 25, 4}) {
	case 5: // plain bank transfer to a module account that holds user funds: must be refused (blocked address)
		mod := []string{restaketypes.ModuleName, "tunnel", "bandtss", "bonded_tokens_pool"}[e.Ch.Intn("stake.tomodule.which", 4)]
		d := a.Denoms[e.Ch.Intn("stake.tomodule.denom", len(a.Denoms))]
		msg := banktypes.NewMsgSend(u.Addr, authtypes.NewModuleAddress(mod), sdk.NewCoins(sdk.NewInt64Coin(d, int64(1+e.Ch.Intn("stake.tomodule.amt", 9)))))
		e.Submit(u, "send_to_module_account", nil, msg)
		e.St.Fault("bank_send_to_module_account")
	case 0:
		targets := w.Vals
		if a.extra != nil && a.extraTotal < 400_000 {
			targets = append(append([]*world.Validator{}, w.Vals...), a.extra)
		}
		t := targets[e.Ch.Intn("stake.val", len(targets))]
		amt := int64(1 + e.Ch.Intn("stake.amt", 3000))
		if t == a.extra {
			a.extraTotal += amt
			e.St.Fault("delegation_to_validator_outside_the_active_set")
		}
		a.submitDelegate(e, u, t, amt)
	case 1: // undelegate
		vals := sortedKeysInt2(sh.Deleg[addr])
		if len(vals) == 0 {
			return
		}
		v := vals[e.Ch.Intn("stake.undel.val", len(vals))]
		amt, aim := aimAmt(sh.Deleg[addr][v])
		if a.extra != nil && v == a.extra.Val.String() && e.Ch.Bool("stake.undel.extra.all", 600) {
			// the whole delegation to the validator outside the active set (the delegation record is removed, a different path in staking)
			amt, aim = sh.Deleg[addr][v], "all"
			e.St.Fault("full_undelegation_from_validator_outside_the_active_set")
		}
		if !amt.IsPositive() {
			return
		}
		m := stakingtypes.NewMsgUndelegate(addr, v, sdk.NewCoin("uband", amt))
		e.Submit(u, "undelegate", &stakeOpMeta{Kind: "undelegate", Addr: u, Val: v, Amount: amt, Aim: aim}, m)
	case 2: // redelegate
		vals := sortedKeysInt2(sh.Deleg[addr])
		if len(vals) == 0 || len(w.Vals) < 2 {
			return
		}
		v := vals[e.Ch.Intn("stake.redel.val", len(vals))]
		dst := w.Vals[e.Ch.Intn("stake.redel.dst", len(w.Vals))].Val.String()
		if dst == v {
			return
		}
		amt, aim := aimAmt(sh.Deleg[addr][v])
		if a.extra != nil && v == a.extra.Val.String() && e.Ch.Bool("stake.redel.extra.all", 600) {
			amt, aim = sh.Deleg[addr][v], "all"
			e.St.Fault("full_redelegation_from_validator_outside_the_active_set")
		}
		if !amt.IsPositive() {
			return
		}
		m := stakingtypes.NewMsgBeginRedelegate(addr, v, dst, sdk.NewCoin("uband", amt))
		e.Submit(u, "redelegate", &stakeOpMeta{Kind: "redelegate", Addr: u, Val: v, Dst: dst, Amount: amt, Aim: aim}, m)
	case 3: // stake
		d := a.Denoms[e.Ch.Intn("stake.denom", len(a.Denoms))]
		c := sdk.NewCoins(sdk.NewInt64Coin(d, int64(1+e.Ch.Intn("stake.stake.amt", 2000))))
		e.Submit(u, "restake_stake", &stakeOpMeta{Kind: "stake", Addr: u, Coins: c, Aim: "free"}, restaketypes.NewMsgStake(u.Addr, c))
	case 4: // unstake
		st := sh.Stakes[addr]
		if e.Ch.Bool("stake.unstake.notheld", 120) {
			// a denom the account has no stake in (others may): nothing of it is the account's to take out
			var cand []string
			for _, d := range a.Denoms {
				if st.AmountOf(d).IsZero() {
					cand = append(cand, d)
				}
			}
			if len(cand) > 0 {
				c := sdk.NewCoins(sdk.NewInt64Coin(cand[e.Ch.Intn("stake.unstake.notheld.denom", len(cand))], int64(1+e.Ch.Intn("stake.unstake.notheld.amt", 500))))
				e.St.Fault("unstake_of_a_denom_the_account_has_not_staked")
				e.Submit(u, "restake_unstake", &stakeOpMeta{Kind: "unstake", Addr: u, Coins: c, Aim: "not_staked"}, restaketypes.NewMsgUnstake(u.Addr, c))
				return
			}
		}
		if st.Empty() {
			return
		}
		c0 := st[e.Ch.Intn("stake.unstake.denom", len(st))]
		amt, aim := aimAmt(c0.Amount)
		if !amt.IsPositive() {
			return
		}
		c := sdk.NewCoins(sdk.NewCoin(c0.Denom, amt))
		e.Submit(u, "restake_unstake", &stakeOpMeta{Kind: "unstake", Addr: u, Coins: c, Aim: aim}, restaketypes.NewMsgUnstake(u.Addr, c))
	}
}

// clampInt64 converts without panicking: amounts above 2^63-1 (whale runs) become 2^63-1.
func clampInt64(x math.Int) int64 {
	if x.IsInt64() {
		return x.Int64()
	}
	if x.IsNegative() {
		return -1 << 63
	}
	return 1<<63 - 1
}

func min64(a, b int64) int64 {
	if a < b {
		return a
	}
	return b
}

// VoteActor casts signal votes.
type VoteActor struct {
	Voters  []*world.Account
	Signals []string
	Rate    int
	WrapP   int // permille of votes whose powers sum past int64
	n       int
}

func (a *VoteActor) OnBlock(e *Env, blk *world.BlockRecord) {}

func (a *VoteActor) Act(e *Env) {
	if e.Draining || e.Step < 2 || !e.Ch.Bool("vote", a.Rate) {
		return
	}
	sh := getStake(e)
	u := a.Voters[e.Ch.Intn("vote.who", len(a.Voters))]
	total := sh.TotalPower(u.Addr.String())
	kind := "normal"
	var sigs []feedstypes.Signal
	n := e.Ch.Intn("vote.n", min(len(a.Signals), int(sh.MaxFeeds)+1)+1)
	perm := e.Ch.Perm("vote.signals", len(a.Signals))
	budget := total
	mode := e.Ch.Weighted("vote.mode", []int{55, 15, 10, 10, 10})
	switch mode {
	case 1:
		kind = "exact_total"
	case 2:
		kind = "one_over"
		budget = total.AddRaw(1)
	case 3:
		kind = "many_signals"
		n = int(sh.MaxFeeds) + 1
		if n > len(a.Signals) {
			n = len(a.Signals)
		}
	case 4:
		kind = "empty"
		n = 0
	}
	if a.WrapP > 0 && e.Ch.Bool("vote.wrap", a.WrapP) && len(a.Signals) >= 3 {
		// powers whose true sum exceeds 2^63 (and may wrap to a small value)
		kind = "huge_powers"
		small := int64(1 + e.Ch.Intn("vote.wrap.small", 50))
		switch e.Ch.Intn("vote.wrap.shape", 3) {
		case 0: // wraps to `small` modulo 2^64
			sigs = []feedstypes.Signal{{ID: a.Signals[perm[0]], Power: 1<<63 - 1}, {ID: a.Signals[perm[1]], Power: 1<<63 - 1}, {ID: a.Signals[perm[2]], Power: small + 2}}
		case 1: // sum just above 2^63 -> negative int64
			sigs = []feedstypes.Signal{{ID: a.Signals[perm[0]], Power: 1<<63 - 1}, {ID: a.Signals[perm[1]], Power: small}}
		case 2:
			sigs = []feedstypes.Signal{{ID: a.Signals[perm[0]], Power: 1<<62 + small}, {ID: a.Signals[perm[1]], Power: 1 << 62}, {ID: a.Signals[perm[2]], Power: 1 << 62}}
		}
		e.St.Fault("vote_huge_powers")
	} else if n > 0 {
		rest := budget
		for i := 0; i < n && i < len(perm); i++ {
			var p math.Int
			if i == n-1 && (mode == 1 || mode == 2) {
				p = rest
			} else if rest.GT(math.NewInt(int64(n))) {
				p = math.NewInt(1 + int64(e.Ch.Intn("vote.power", int(min64(clampInt64(rest.QuoRaw(int64(n-i))), 1<<30)))))
			} else {
				p = math.NewInt(1)
			}
			if !p.IsPositive() {
				p = math.NewInt(1)
			}
			p = math.NewInt(clampInt64(p))
			rest = rest.Sub(p)
			sigs = append(sigs, feedstypes.Signal{ID: a.Signals[perm[i]], Power: clampInt64(p)})
		}
	}
	if e.Ch.Bool("vote.dupid", 30) && len(sigs) > 1 {
		sigs[1].ID = sigs[0].ID
		kind = "duplicate_id"
	}
	a.n++
	msg := feedstypes.NewMsgVote(u.Addr.String(), sigs)
	e.Submit(u, "vote", &voteMeta{Msg: msg, Kind: kind}, msg)
}

func fmtSignals(s []feedstypes.Signal) string {
	o := ""
	for _, x := range s {
		o += fmt.Sprintf("%s:%d ", x.ID, x.Power)
	}
	return o
}

// RestakeParamChurn lets governance change the list of restakable denoms mid-run: coins staked in a denom that is later removed
// stay recorded but stop counting as power (and count again if the denom returns).
type RestakeParamChurn struct {
	Rate int
}

func (p *RestakeParamChurn) OnBlock(e *Env, blk *world.BlockRecord) {}
func (p *RestakeParamChurn) Act(e *Env) {
	if e.Draining || e.Step < 6 || !e.Ch.Bool("restake.churn", p.Rate) {
		return
	}
	gov := getGov(e)
	if gov == nil {
		return
	}
	sets := [][]string{{"uusd"}, {"uusd", "uatom"}, {}, {"uatom"}}
	np := restaketypes.Params{AllowedDenoms: sets[e.Ch.Intn("restake.churn.set", len(sets))]}
	if np.Validate() == nil {
		gov.Propose(e, "params_restake", nil, &restaketypes.MsgUpdateParams{Authority: govAuthority, Params: np})
		e.St.Fault("restake_allowed_denoms_changed_by_governance")
	}
}

// DelegationChurn: plain delegate / undelegate traffic without any model behind it (used where only conservation is judged):
// it keeps unbonding entries in flight so that a slash also hits the not-bonded pool.
type DelegationChurn struct {
	Users []*world.Account
	Rate  int
	Big   bool // amounts large enough to move consensus power (1 power = 10^6 tokens)
	deleg map[string]map[string]int64
}

type churnMeta struct {
	User, Val string
	Amt       int64
}

func (a *DelegationChurn) OnBlock(e *Env, blk *world.BlockRecord) {
	for _, tx := range blk.Txs {
		cm, ok := tx.Intent.Meta.(*churnMeta)
		if !ok || !tx.OK() {
			continue
		}
		if a.deleg[cm.User] == nil {
			a.deleg[cm.User] = map[string]int64{}
		}
		a.deleg[cm.User][cm.Val] += cm.Amt
	}
}

func (a *DelegationChurn) Act(e *Env) {
	if a.deleg == nil {
		a.deleg = map[string]map[string]int64{}
	}
	if e.Draining || len(a.Users) == 0 || !e.Ch.Bool("churn.deleg", a.Rate) {
		return
	}
	u := a.Users[e.Ch.Intn("churn.deleg.who", len(a.Users))]
	v := e.W.Vals[e.Ch.Intn("churn.deleg.val", len(e.W.Vals))]
	have := a.deleg[u.Addr.String()][v.Val.String()]
	if have > 0 && e.Ch.Bool("churn.deleg.un", 600) {
		amt := 1 + int64(e.Ch.Intn("churn.deleg.unamt", int(min64(have, 1<<30))))
		m := stakingtypes.NewMsgUndelegate(u.Addr.String(), v.Val.String(), sdk.NewInt64Coin("uband", amt))
		e.Submit(u, "churn_undelegate", &churnMeta{User: u.Addr.String(), Val: v.Val.String(), Amt: -amt}, m)
		return
	}
	amt := int64(1000 + e.Ch.Intn("churn.deleg.amt", 5_000_000))
	if a.Big {
		amt = int64(1+e.Ch.Intn("churn.deleg.bigamt", 40)) * 1_000_000
	}
	m := stakingtypes.NewMsgDelegate(u.Addr.String(), v.Val.String(), sdk.NewInt64Coin("uband", amt))
	e.Submit(u, "churn_delegate", &churnMeta{User: u.Addr.String(), Val: v.Val.String(), Amt: amt}, m)
}
