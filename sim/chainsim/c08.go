package chainsim

import (
	"os"
	"strings"
	"fmt"

	feedstypes "github.com/bandprotocol/chain/v3/x/feeds/types"

	"verifsim/world"
)

// C08 — tunnel packets: produced exactly when due, gap-free sequence, atomic fee.
type C08 struct {
	nInterval, nDeviationSoft, nFailed, nDeactivatedNoFunds, nNotDue, nTrigger int
}

func (m *C08) Prop() string { return "C08" }

func samePrices(a, b []feedstypes.Price) bool {
	if len(a) != len(b) {
		return false
	}
	for i := range a {
		if a[i].SignalID != b[i].SignalID || a[i].Price != b[i].Price || a[i].Status != b[i].Status || a[i].Timestamp != b[i].Timestamp {
			return false
		}
	}
	return true
}

func (m *C08) OnBlock(e *Env, blk *world.BlockRecord) {
	ts := getTunnelShadow(e)
	ts.Advance(e, blk)
	ctx := e.Ctx()
	tk := e.App().TunnelKeeper
	for _, s := range ts.StrayEvents {
		e.Fail("C08", "packet_from_inactive_tunnel", "", "%s (height %d)", s, blk.Height)
		return
	}
	for _, jp := range ts.JPackets {
		id := jp.T.ID
		if jp.Trigger {
			m.nTrigger++
			e.St.Trace("trigger")
		} else {
			switch {
			case !jp.FundsOK:
				if jp.Outcome != "deactivated" {
					e.Fail("C08", "unfunded_tunnel_not_deactivated", jp.Outcome, "tunnel %d: fee payer holds %s, base+route fee is %s; expected deactivation, observed %q", id, jp.PayerBal, jp.FeeNeeded, jp.Outcome)
					return
				}
				m.nDeactivatedNoFunds++
				e.St.Trace("deactivated-no-funds")
				continue
			case jp.Outcome == "deactivated":
				e.Fail("C08", "funded_tunnel_deactivated", "", "tunnel %d deactivated in the end block although the fee payer holds %s >= %s", id, jp.PayerBal, jp.FeeNeeded)
				return
			case !jp.Due:
				if jp.Outcome != "none" {
					e.Fail("C08", "packet_when_not_due", jp.Outcome, "tunnel %d: interval not elapsed (last full send %d, interval %d, now %d) and no signal moved by its hard deviation, but the end block reported %q", id, jp.T.LastInterval, jp.T.Interval, blk.Time.Unix(), jp.Outcome)
					return
				}
				m.nNotDue++
				continue
			case jp.Outcome == "none":
				e.Fail("C08", "due_packet_missing", fmt.Sprintf("sendAll=%v", jp.SendAll), "tunnel %d is due (interval elapsed=%v) with %d signals to carry but neither a packet nor a failure was reported", id, jp.SendAll, len(jp.Expect))
				return
			case jp.Outcome == "fail":
				if jp.MustSucceed {
					e.Fail("C08", "send_failed_without_cause", "", "tunnel %d: TSS route with an active group, enough available members and sufficient funds, yet sending failed: %s", id, jp.Reason)
					return
				}
				m.nFailed++
				why := "other"
				for _, k := range []string{"insufficient", "channel", "no active", "not enough", "DE", "de ", "fee", "group", "port", "route"} {
					if strings.Contains(strings.ToLower(jp.Reason), strings.ToLower(k)) {
						why = strings.TrimSpace(k)
						break
					}
				}
				e.St.Probe("c08_send_failed_because:" + why)
				if os.Getenv("VERIF_DEBUG_C08") != "" {
					r := jp.Reason
					if len(r) > 110 {
						r = r[:110]
					}
					e.St.Probe("dbg:" + r)
				}
				e.St.Trace("send-failed")
				e.St.Covered("c08.failed")
				continue
			}
		}
		// a packet was produced: sequence, content, fees
		want := jp.T.Sequence // model already advanced
		if !jp.Trigger && jp.Seq != want {
			e.Fail("C08", "packet_sequence", "", "tunnel %d produced sequence %d, expected %d", id, jp.Seq, want)
			return
		}
		seq := jp.Seq
		pk, err := tk.GetPacket(ctx, id, seq)
		if err != nil {
			e.Fail("C08", "packet_not_stored", "", "tunnel %d sequence %d reported but not stored", id, seq)
			return
		}
		if !samePrices(pk.Prices, jp.Expect) {
			e.Fail("C08", "packet_content", fmt.Sprintf("sendAll=%v", jp.SendAll), "tunnel %d sequence %d carries %v; expected (sendAll=%v) %v", id, seq, pk.Prices, jp.SendAll, jp.Expect)
			return
		}
		if !pk.BaseFee.Equal(jp.BaseFee) || !pk.RouteFee.Equal(jp.RouteFee) || pk.CreatedAt != blk.Time.Unix() {
			e.Fail("C08", "packet_fees_recorded", "", "tunnel %d sequence %d records base %s route %s created %d; expected %s / %s / %d", id, seq, pk.BaseFee, pk.RouteFee, pk.CreatedAt, jp.BaseFee, jp.RouteFee, blk.Time.Unix())
			return
		}
		if !jp.Trigger {
			if jp.SendAll {
				m.nInterval++
				e.St.Trace(fmt.Sprintf("packet-interval(n%d)", len(jp.Expect)))
			} else {
				if len(jp.Expect) < len(jp.T.Signals) || len(jp.Expect) > 1 {
					m.nDeviationSoft++
				}
				e.St.Trace(fmt.Sprintf("packet-deviation(n%d/%d)", len(jp.Expect), len(jp.T.Signals)))
			}
			e.St.Covered(fmt.Sprintf("c08.packet.sendAll=%v.n%d", jp.SendAll, len(jp.Expect)))
		}
	}
	// state: sequence gap-free, packets 1..Sequence, latest prices, balances
	for _, id := range ts.sortedIDs() {
		mt := ts.Tunnels[id]
		ct, err := tk.GetTunnel(ctx, id)
		if err != nil {
			continue
		}
		if ct.Sequence != mt.Sequence {
			e.Fail("C08", "sequence", "", "tunnel %d: sequence on chain %d, model %d (a failed or absent send must not consume a number)", id, ct.Sequence, mt.Sequence)
			return
		}
		for s := uint64(1); s <= ct.Sequence+1; s++ {
			_, err := tk.GetPacket(ctx, id, s)
			if (err == nil) != (s <= ct.Sequence) {
				e.Fail("C08", "packets_not_gap_free", "", "tunnel %d: packet %d stored=%v with sequence %d", id, s, err == nil, ct.Sequence)
				return
			}
		}
		lp, err := tk.GetLatestPrices(ctx, id)
		if err != nil {
			continue
		}
		if lp.LastInterval != mt.LastInterval || len(lp.Prices) != len(mt.Latest) {
			e.Fail("C08", "latest_prices", "interval", "tunnel %d: last full send %d with %d prices, model %d with %d (a failed send must not update them)", id, lp.LastInterval, len(lp.Prices), mt.LastInterval, len(mt.Latest))
			return
		}
		for _, p := range lp.Prices {
			if mp, ok := mt.Latest[p.SignalID]; !ok || mp.Price != p.Price || mp.Timestamp != p.Timestamp {
				e.Fail("C08", "latest_prices", "price", "tunnel %d: last sent price of %s is %d@%d, model %d@%d", id, p.SignalID, p.Price, p.Timestamp, mp.Price, mp.Timestamp)
				return
			}
		}
		if ct.IsActive != mt.Active {
			e.Fail("C08", "active_flag", "", "tunnel %d: chain active=%v, model %v", id, ct.IsActive, mt.Active)
			return
		}
	}
	if d, ok := ts.L.Compare(e); !ok {
		e.Fail("C08", "ledger", "", "%s at height %d (fees must be charged exactly once per produced packet and not at all otherwise)", d, blk.Height)
		return
	}
}

func (m *C08) Pending(e *Env) bool { return false }
func (m *C08) Finish(e *Env)       {}
func (m *C08) NonTrivial(e *Env) bool {
	e.St.ProbeN("c08_interval_packets", m.nInterval)
	e.St.ProbeN("c08_deviation_packets_partial", m.nDeviationSoft)
	e.St.ProbeN("c08_failed_sends", m.nFailed)
	e.St.ProbeN("c08_deactivated_for_funds", m.nDeactivatedNoFunds)
	e.St.ProbeN("c08_not_due_evaluations", m.nNotDue)
	e.St.ProbeN("c08_manual_triggers", m.nTrigger)
	return m.nInterval > 0 && m.nFailed > 0 && (m.nDeviationSoft > 0 || m.nDeactivatedNoFunds > 0)
}
