package chainsim

import (
	"encoding/binary"
	"bytes"
	"fmt"
	"path/filepath"
	"sort"
	"sync"

	"github.com/bytecodealliance/wasmtime-go/v20"

	"cosmossdk.io/math"

	sdk "github.com/cosmos/cosmos-sdk/types"

	band "github.com/bandprotocol/chain/v3/app"
	"github.com/bandprotocol/chain/v3/pkg/filecache"
	"github.com/bandprotocol/chain/v3/pkg/obi"
	"github.com/bandprotocol/chain/v3/testing/testdata"
	oracletypes "github.com/bandprotocol/chain/v3/x/oracle/types"

	"verifsim/world"
)

// ---------------------------------------------------------------------------------------------
// Oracle scripts used by the harness.
//   1: Wasm1  (asks ds 1,2,3 with eids 1,2,3; returns "test")
//   2: Wasm4  (echo: asks the ds ids in calldata with eids 0..n-1; returns concat of all OK reports)
//   3: noReturn (asks ds 1 eid 1; execute returns nothing -> FAILURE)
//   4: trap   (asks ds 1 eid 1; execute traps -> FAILURE)
//   5: Wasm2  (set_return_data during prepare -> request rejected)
//   6: Wasm3  (no raw request -> request rejected)

const (
	scriptSimple = 1
	scriptEcho   = 2
	scriptNoRet  = 3
	scriptTrap   = 4
	scriptBadPre = 5
	scriptNoRaw  = 6
	scriptEmpty  = 7 // asks ds 1 eid 1; execute returns zero bytes -> SUCCESS with an empty result
	scriptProbe  = 8 // asks ds 1 eid 1; execute asks the status of (eid 1, validator index ask_count+delta), delta = the calldata's
	// 8 little-endian bytes, then returns "test": SUCCESS when the index names a requested validator, FAILURE otherwise
)

// scriptDesc asks data sources 1, 2, 3 with external ids 3, 1, 2 (not in ascending order); execute returns "test".
const scriptDesc = 9

var watDescEIDs = `
(module
	(type $t0 (func))
	(type $t1 (func (param i64 i64 i64 i64)))
	(type $t2 (func (param i64 i64)))
	(import "env" "ask_external_data" (func $ask_external_data (type $t1)))
	(import "env" "set_return_data" (func $set_return_data (type $t2)))
	(func $prepare (export "prepare") (type $t0)
	  (call $ask_external_data (i64.const 3) (i64.const 1) (i64.const 1024) (i64.const 4))
	  (call $ask_external_data (i64.const 1) (i64.const 2) (i64.const 1024) (i64.const 4))
	  (call $ask_external_data (i64.const 2) (i64.const 3) (i64.const 1024) (i64.const 4)))
	(func $execute (export "execute") (type $t0)
	  i64.const 1024
	  i64.const 4
	  call $set_return_data)
	(memory $memory (export "memory") 17)
	(data (i32.const 1024) "test"))`

// probeIndex is the validator index scriptProbe asks about.
func probeDelta(calldata []byte) (int64, bool) {
	if len(calldata) != 8 {
		return 0, false
	}
	return int64(binary.LittleEndian.Uint64(calldata)), true
}

var watProbe = `
(module
	(type $t0 (func))
	(type $t1 (func (param i64 i64 i64 i64)))
	(type $t2 (func (param i64 i64)))
	(type $t3 (func (result i64)))
	(type $t4 (func (param i64 i64) (result i64)))
	(type $t5 (func (param i64) (result i64)))
	(import "env" "ask_external_data" (func $ask_external_data (type $t1)))
	(import "env" "set_return_data" (func $set_return_data (type $t2)))
	(import "env" "get_ask_count" (func $get_ask_count (type $t3)))
	(import "env" "get_external_data_status" (func $get_external_data_status (type $t4)))
	(import "env" "read_calldata" (func $read_calldata (type $t5)))
	(func $prepare (export "prepare") (type $t0)
	  i64.const 1
	  i64.const 1
	  i64.const 1024
	  i64.const 4
	  call $ask_external_data)
	(func $execute (export "execute") (type $t0)
	  (drop (call $read_calldata (i64.const 2048)))
	  (drop (call $get_external_data_status (i64.const 1) (i64.add (call $get_ask_count) (i64.load (i32.const 2048)))))
	  i64.const 1024
	  i64.const 4
	  call $set_return_data)
	(memory $memory (export "memory") 17)
	(data (i32.const 1024) "test"))`


var watEmptyReturn = `
(module
	(type $t0 (func))
	(type $t1 (func (param i64 i64 i64 i64)))
	(type $t2 (func (param i64 i64)))
	(import "env" "ask_external_data" (func $ask_external_data (type $t1)))
	(import "env" "set_return_data" (func $set_return_data (type $t2)))
	(func $prepare (export "prepare") (type $t0)
	  i64.const 1
	  i64.const 1
	  i64.const 1024
	  i64.const 4
	  call $ask_external_data)
	(func $execute (export "execute") (type $t0)
	  i64.const 1024
	  i64.const 0
	  call $set_return_data)
	(memory $memory (export "memory") 17)
	(data (i32.const 1024) "test"))`

var watNoReturn = `
(module
	(type $t0 (func))
	(type $t1 (func (param i64 i64 i64 i64)))
	(import "env" "ask_external_data" (func $ask_external_data (type $t1)))
	(func $prepare (export "prepare") (type $t0)
	  i64.const 1
	  i64.const 1
	  i64.const 1024
	  i64.const 4
	  call $ask_external_data)
	(func $execute (export "execute") (type $t0))
	(memory $memory (export "memory") 17)
	(data (i32.const 1024) "test"))`

var watTrap = `
(module
	(type $t0 (func))
	(type $t1 (func (param i64 i64 i64 i64)))
	(import "env" "ask_external_data" (func $ask_external_data (type $t1)))
	(func $prepare (export "prepare") (type $t0)
	  i64.const 1
	  i64.const 1
	  i64.const 1024
	  i64.const 4
	  call $ask_external_data)
	(func $execute (export "execute") (type $t0)
	  unreachable)
	(memory $memory (export "memory") 17)
	(data (i32.const 1024) "test"))`

var (
	compiledOnce    sync.Once
	compiledScripts [][]byte
)

func compiledOracleScripts() [][]byte {
	compiledOnce.Do(func() {
		w2w := func(s string) []byte {
			b, err := wasmtime.Wat2Wasm(s)
			if err != nil {
				panic(err)
			}
			return b
		}
		for _, code := range [][]byte{testdata.Wasm1, testdata.Wasm4, w2w(watNoReturn), w2w(watTrap), testdata.Wasm2, testdata.Wasm3, w2w(watEmptyReturn), w2w(watProbe), w2w(watDescEIDs)} {
			compiledScripts = append(compiledScripts, testdata.Compile(code))
		}
	})
	return compiledScripts
}

type dsSpec struct {
	Fee      sdk.Coins
	Treasury *world.Account
	Exec     []byte
}

// oracleGenesis installs data sources and scripts. Data-source treasuries are dedicated accounts.
func oracleGenesis(e *Env, params oracletypes.Params, dss []dsSpec) func(w *world.World, gs band.GenesisState) {
	return func(w *world.World, gs band.GenesisState) {
		cdc := w.Replicas[0].App.AppCodec()
		og := oracletypes.DefaultGenesisState()
		og.Params = params
		owner := w.Users[0]
		for _, r := range w.Replicas {
			fc := filecache.New(filepath.Join(r.Home, "files"))
			for i, ds := range dss {
				h := fc.AddFile(ds.Exec)
				if r.ID == 0 {
					og.DataSources = append(og.DataSources, oracletypes.NewDataSource(owner.Addr, fmt.Sprintf("ds%d", i+1), "", h, ds.Fee, ds.Treasury.Addr))
				}
			}
			for i, code := range compiledOracleScripts() {
				h := fc.AddFile(code)
				if r.ID == 0 {
					og.OracleScripts = append(og.OracleScripts, oracletypes.NewOracleScript(owner.Addr, fmt.Sprintf("os%d", i+1), "", h, "", ""))
				}
			}
		}
		gs[oracletypes.ModuleName] = cdc.MustMarshalJSON(og)
	}
}

// ---------------------------------------------------------------------------------------------
// Shared view of open requests, maintained by the oracle actor from accepted request events.

type openRequest struct {
	ID      uint64
	Height  int64
	Chosen  []string // validator operator bech32, request order
	RawEIDs []oracletypes.ExternalID
	Msg     *oracletypes.MsgRequestData
	// per chosen validator: block offset at which it will report (-1 never)
	Plan map[string]int
	Done map[string]bool
	longDrawn, long, longUsed bool
}

type OracleActor struct {
	Open       []*openRequest
	MaxOpen    int
	ReqRate    int // permille per step
	Scripts    []int
	NumDS      int
	TSSEncoder bool
	activated  bool
	ActivateP  int // permille of validators that activate at start
	Byz        int // permille of Byzantine report attempts per step
	ReactivateP int
	expCount   int64
	FeeLimit   sdk.Coins
	DSFees     map[int64]sdk.Coins // data source id -> fee (requester's knowledge); nil: fees not exercised
	Requesters []*world.Account
	// ReportPolicy weights: now, +1, +2, exp-1, exp, exp+1, never
	PolicyW []int
}

type reqMeta struct {
	Msg       *oracletypes.MsgRequestData
	LimitKind string
}
type repMeta struct {
	Msg  *oracletypes.MsgReportData
	Kind string
}

func (a *OracleActor) Act(e *Env) {
	w := e.W
	if !a.activated {
		a.activated = true
		for _, v := range w.Vals {
			if e.Ch.Bool("oracle.activate", a.ActivateP) || a.ActivateP >= 1000 {
				e.Submit(v.Account, "activate", nil, oracletypes.NewMsgActivate(v.Val))
			}
		}
		return
	}
	if e.Draining {
		// in the drain phase honest reporters still act; no new requests
	} else if len(a.Open) < a.MaxOpen && e.Ch.Bool("oracle.request", a.ReqRate) {
		a.newRequest(e)
	}
	// occasional (re)activation attempts
	if !e.Draining && a.ReactivateP > 0 && e.Ch.Bool("oracle.reactivate", a.ReactivateP) {
		v := w.Vals[e.Ch.Intn("oracle.reactivate.who", len(w.Vals))]
		e.Submit(v.Account, "activate", nil, oracletypes.NewMsgActivate(v.Val))
	}
	// reporters
	for _, r := range a.Open {
		for _, val := range r.Chosen {
			off, ok := r.Plan[val]
			if !ok || off < 0 || r.Done[val] {
				continue
			}
			if w.Height+1 >= r.Height+int64(off) {
				r.Done[val] = true
				va, err := sdk.ValAddressFromBech32(val)
				if err != nil {
					continue // a committee entry that is not an address: judged by C09, not by this actor
				}
				v := w.ValByOperator(va)
				if v == nil {
					continue
				}
				msg := oracletypes.NewMsgReportData(oracletypes.RequestID(r.ID), a.honestRaw(e, r, val), v.Val)
				e.Submit(v.Account, "report", &repMeta{Msg: msg, Kind: "honest"}, msg)
				if !e.Draining && e.Ch.Bool("oracle.report.twice", 80) {
					msg2 := oracletypes.NewMsgReportData(oracletypes.RequestID(r.ID), a.honestRaw(e, r, val), v.Val)
					e.Submit(v.Account, "report", &repMeta{Msg: msg2, Kind: "twice"}, msg2)
					e.St.Fault("report_twice")
				}
			}
		}
	}
	// Byzantine / wrong reports
	if !e.Draining && a.Byz > 0 && e.Ch.Bool("oracle.byz", a.Byz) {
		a.byzReport(e)
	}
}


func (a *OracleActor) honestRaw(e *Env, r *openRequest, val string) []oracletypes.RawReport {
	var out []oracletypes.RawReport
	for _, eid := range r.RawEIDs {
		exit := uint32(0)
		if e.Ch.Bool("oracle.report.exit", 150) {
			exit = uint32(1 + e.Ch.Intn("oracle.report.exitcode", 3))
		}
		data := []byte(fmt.Sprintf("d%dv%s", eid, val[len(val)-3:]))
		if e.Ch.Bool("oracle.report.empty", 100) {
			data = nil
		}
		// one report of a request may be longer than the calldata limit (256) yet within the report limit (512); the request is
		// small enough for the concatenated script output to stay below 512
		if !r.longDrawn {
			r.longDrawn = true
			r.long = len(r.Chosen)*len(r.RawEIDs) <= 30 && e.Ch.Bool("oracle.report.long", 100)
		}
		if r.long && !r.longUsed && exit == 0 {
			r.longUsed = true
			data = bytes.Repeat([]byte("L"), 257+e.Ch.Intn("oracle.report.longn", 4))
			e.St.Probe("report_longer_than_calldata_limit")
		}
		out = append(out, oracletypes.NewRawReport(eid, exit, data))
	}
	// order of raw reports is free
	if len(out) > 1 && e.Ch.Bool("oracle.report.shuffle", 300) {
		p := e.Ch.Perm("oracle.report.perm", len(out))
		o2 := make([]oracletypes.RawReport, len(out))
		for i, j := range p {
			o2[i] = out[j]
		}
		out = o2
	}
	return out
}

func (a *OracleActor) newRequest(e *Env) {
	w := e.W
	script := a.Scripts[e.Ch.Weighted("oracle.req.script", scriptWeights(a.Scripts))]
	nv := len(w.Vals)
	ask := uint64(1 + e.Ch.Intn("oracle.req.ask", nv))
	if e.Ch.Bool("oracle.req.ask.over", 50) {
		ask = uint64(nv + 1 + e.Ch.Intn("oracle.req.ask.overn", 3))
	}
	min := uint64(1 + e.Ch.Intn("oracle.req.min", int(ask)))
	if e.Ch.Bool("oracle.req.min.bad", 40) {
		min = []uint64{0, ask + 1}[e.Ch.Intn("oracle.req.min.badk", 2)]
	}
	var calldata []byte
	switch script {
	case scriptEcho:
		n := 1 + e.Ch.Intn("oracle.req.nds", 4)
		ids := make([]int64, n)
		for i := range ids {
			ids[i] = int64(1 + e.Ch.Intn("oracle.req.ds", a.NumDS))
		}
		if e.Ch.Bool("oracle.req.ds.bad", 30) {
			ids[0] = int64(a.NumDS + 5)
		}
		calldata = obi.MustEncode(testdata.Wasm4Input{IDs: ids, Calldata: "cd"})
	case scriptProbe:
		// the index asked about: the last requested validator, one past it, two past it, -1 (for ask 1: index 0-2), a huge one
		d := []int64{-1, 0, 1, -2, 1<<62}[e.Ch.Weighted("oracle.req.probe", []int{30, 40, 10, 10, 10})]
		calldata = binary.LittleEndian.AppendUint64(nil, uint64(d))
		e.St.Fault("script_asks_validator_index_at_or_past_ask_count")
	default:
		calldata = []byte("x")
	}
	client := fmt.Sprintf("c%d", e.Ch.Intn("oracle.req.client", 1000))
	enc := oracletypes.ENCODER_UNSPECIFIED
	if a.TSSEncoder && e.Ch.Bool("oracle.req.tss", 500) {
		enc = []oracletypes.Encoder{oracletypes.ENCODER_PROTO, oracletypes.ENCODER_FULL_ABI, oracletypes.ENCODER_PARTIAL_ABI}[e.Ch.Intn("oracle.req.enc", 3)]
	}
	sender := w.Users[1+e.Ch.Intn("oracle.req.sender", len(w.Users)-1)]
	if len(a.Requesters) > 0 {
		sender = a.Requesters[e.Ch.Intn("oracle.req.sender2", len(a.Requesters))]
	}
	feeLimit := a.FeeLimit
	limitKind := "fixed"
	aimed := false
	if a.DSFees != nil && script == scriptEcho && e.Ch.Bool("oracle.req.limit.aimed", 60) {
		// aimed at the fee collector's running total: an earlier source charges one denom within the limit, a later source
		// charges ONLY another denom that the limit does not cover
		var first, second int64
		for _, id := range []int64{1, 2, 3, 4} {
			f := a.DSFees[id]
			if len(f) == 1 && first == 0 {
				first = id
			} else if len(f) == 1 && first != 0 && f[0].Denom != a.DSFees[first][0].Denom {
				second = id
			}
		}
		if first != 0 && second != 0 {
			if a.DSFees[first][0].Denom > a.DSFees[second][0].Denom {
				first, second = second, first
			}
			calldata = obi.MustEncode(testdata.Wasm4Input{IDs: []int64{first, second}, Calldata: "cd"})
			feeLimit = a.costOf(script, calldata, ask)[:1]
			limitKind, aimed = "later_source_other_denom", true
			e.St.Fault("fee_limit_lacks_the_denom_of_a_later_data_source")
		}
	}
	if a.DSFees != nil && !aimed {
		cost := a.costOf(script, calldata, ask)
		switch e.Ch.Weighted("oracle.req.limit", []int{55, 15, 15, 8, 7}) {
		case 0:
			limitKind = "ample"
			feeLimit = cost.Add(sdk.NewInt64Coin("uband", 50), sdk.NewInt64Coin("uusd", 50))
		case 1:
			limitKind = "exact"
			feeLimit = cost
		case 2:
			limitKind = "one_below"
			if len(cost) > 0 {
				i := e.Ch.Intn("oracle.req.limit.denom", len(cost))
				feeLimit = cost.Sub(sdk.NewCoin(cost[i].Denom, math.NewInt(1)))
			} else {
				feeLimit = sdk.NewCoins()
			}
		case 3:
			limitKind = "missing_denom"
			if len(cost) > 1 {
				feeLimit = sdk.NewCoins(cost[0])
			} else {
				feeLimit = sdk.NewCoins()
			}
		case 4:
			limitKind = "one_above"
			feeLimit = cost.Add(sdk.NewInt64Coin("uband", 1))
		}
	}
	msg := oracletypes.NewMsgRequestData(oracletypes.OracleScriptID(script), calldata, ask, min, client, feeLimit, 1_000_000, 3_000_000, sender.Addr, enc)
	e.Submit(sender, "request", &reqMeta{Msg: msg, LimitKind: limitKind}, msg)
}

// costOf is the requester's own estimate of the data-source fees of a request (ask_count x sum of fees).
func (a *OracleActor) costOf(script int, calldata []byte, ask uint64) sdk.Coins {
	var ids []int64
	switch script {
	case scriptEcho:
		var in testdata.Wasm4Input
		if err := obi.Decode(calldata, &in); err == nil {
			ids = in.IDs
		}
	case scriptSimple, scriptDesc:
		ids = []int64{1, 2, 3}
	case scriptNoRet, scriptTrap, scriptEmpty, scriptProbe:
		ids = []int64{1}
	}
	cost := sdk.NewCoins()
	for _, id := range ids {
		if f, ok := a.DSFees[id]; ok {
			cost = cost.Add(f.MulInt(math.NewIntFromUint64(ask))...)
		}
	}
	return cost
}

func scriptWeights(s []int) []int {
	w := make([]int, len(s))
	for i, x := range s {
		switch x {
		case scriptEcho:
			w[i] = 60
		case scriptSimple:
			w[i] = 15
		default:
			w[i] = 6
		}
	}
	return w
}

func (a *OracleActor) byzReport(e *Env) {
	w := e.W
	kind := e.Ch.Intn("oracle.byz.kind", 7)
	v := w.Vals[e.Ch.Intn("oracle.byz.val", len(w.Vals))]
	var rid uint64
	var r *openRequest
	if len(a.Open) > 0 && kind != 5 {
		r = a.Open[e.Ch.Intn("oracle.byz.req", len(a.Open))]
		rid = r.ID
	} else {
		// nonexistent or long-expired id
		rid = uint64(e.Ch.Intn("oracle.byz.rid", 60))
	}
	var raw []oracletypes.RawReport
	if r != nil {
		raw = a.honestRaw(e, r, v.Val.String())
	} else {
		raw = []oracletypes.RawReport{oracletypes.NewRawReport(0, 0, []byte("z"))}
	}
	label := "byz_any_validator"
	switch kind {
	case 1: // wrong external id
		if len(raw) > 0 {
			raw[0].ExternalID += 77
			label = "byz_wrong_eid"
		}
	case 2: // missing one raw report
		if len(raw) > 1 {
			raw = raw[:len(raw)-1]
			label = "byz_short"
		}
	case 3: // extra raw report
		raw = append(raw, oracletypes.NewRawReport(9999, 0, []byte("x")))
		label = "byz_extra"
	case 4: // oversized data
		if len(raw) > 0 {
			raw[0].Data = bytes.Repeat([]byte("A"), 513+e.Ch.Intn("oracle.byz.big", 600))
			label = "byz_oversize"
		}
	case 5:
		label = "byz_bad_request_id"
	case 6: // right length, only requested ids, but one of them twice (adjacent or not) and another one missing
		if len(raw) > 1 {
			i := e.Ch.Intn("oracle.byz.dup.from", len(raw))
			j := (i + 1 + e.Ch.Intn("oracle.byz.dup.to", len(raw)-1)) % len(raw)
			raw[j].ExternalID = raw[i].ExternalID
			label = "byz_duplicate_eid_same_length"
		}
	}
	e.St.Fault(label)
	msg := oracletypes.NewMsgReportData(oracletypes.RequestID(rid), raw, v.Val)
	e.Submit(v.Account, "report", &repMeta{Msg: msg, Kind: label}, msg)
}

func (a *OracleActor) OnBlock(e *Env, blk *world.BlockRecord) {
	ctx := e.Ctx()
	k := e.App().OracleKeeper
	a.expCount = int64(k.GetParams(ctx).ExpirationBlockCount)
	for _, tx := range blk.Txs {
		if !tx.OK() || tx.Intent.Tag != "request" {
			continue
		}
		for _, ev := range EventsOfType(ParseEvents(tx.Result.Events), oracletypes.EventTypeRequest) {
			id := ev.U64(oracletypes.AttributeKeyID)
			req, err := k.GetRequest(ctx, oracletypes.RequestID(id))
			if err != nil {
				continue
			}
			r := &openRequest{ID: id, Height: req.RequestHeight, Chosen: req.RequestedValidators, Plan: map[string]int{}, Done: map[string]bool{}, Msg: tx.Intent.Meta.(*reqMeta).Msg}
			for _, rr := range req.RawRequests {
				r.RawEIDs = append(r.RawEIDs, rr.ExternalID)
			}
			pw := a.PolicyW
			if pw == nil {
				pw = []int{40, 15, 10, 8, 10, 7, 10}
			}
			for _, val := range r.Chosen {
				offs := []int{1, 2, 3, int(a.expCount) - 1, int(a.expCount), int(a.expCount) + 1, -1}
				off := offs[e.Ch.Weighted("oracle.plan", pw)]
				if off == 0 {
					off = 1
				}
				r.Plan[val] = off
			}
			a.Open = append(a.Open, r)
		}
	}
	// forget requests well past expiry
	var keep []*openRequest
	for _, r := range a.Open {
		if blk.Height <= r.Height+a.expCount+2 {
			keep = append(keep, r)
		}
	}
	a.Open = keep
}

func sortedU64(m map[uint64]bool) []uint64 {
	out := make([]uint64, 0, len(m))
	for k := range m {
		out = append(out, k)
	}
	sort.Slice(out, func(i, j int) bool { return out[i] < out[j] })
	return out
}

func wasmSrc(wat string) []byte {
	b, err := wasmtime.Wat2Wasm(wat)
	if err != nil {
		panic(err)
	}
	return b
}

// SamplingParamChurn: governance proposals that change the oracle's sampling_try_count, including the invalid value 0 (which
// parameter validation has to refuse: with zero tries no committee can be drawn).
type SamplingParamChurn struct {
	Rate   int
	Expiry bool // also move expiration_block_count
}

func (p *SamplingParamChurn) OnBlock(e *Env, blk *world.BlockRecord) {}
func (p *SamplingParamChurn) Act(e *Env) {
	if e.Draining || e.Step < 4 || !e.Ch.Bool("oracle.churn", p.Rate) {
		return
	}
	gov := getGov(e)
	if gov == nil {
		return
	}
	np := e.App().OracleKeeper.GetParams(e.Ctx())
	np.SamplingTryCount = uint64(e.Ch.Intn("oracle.churn.try", 10)) // 0 is invalid
	switch np.SamplingTryCount {
	case 7:
		np.SamplingTryCount = 100
	case 8:
		np.SamplingTryCount = 1 << 63 // beyond the int range the sampler converts to
	case 9:
		np.SamplingTryCount = 1<<64 - 1
	}
	if p.Expiry && e.Ch.Bool("oracle.churn.expiry", 500) {
		// the expiration window moves while requests are in flight (shorter: some are overdue at once; longer: they live on)
		np = e.App().OracleKeeper.GetParams(e.Ctx())
		np.ExpirationBlockCount = uint64(1 + e.Ch.Intn("oracle.churn.expiry.n", 12))
		e.St.Fault("expiration_block_count_changed_by_governance")
		gov.Propose(e, "params_oracle", nil, &oracletypes.MsgUpdateParams{Authority: govAuthority, Params: np})
		return
	}
	if np.Validate() != nil {
		e.St.Fault("proposal_with_invalid_sampling_try_count")
	} else {
		e.St.Fault("sampling_try_count_changed_by_governance")
	}
	gov.Propose(e, "params_oracle", nil, &oracletypes.MsgUpdateParams{Authority: govAuthority, Params: np})
}
