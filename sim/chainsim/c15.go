package chainsim

import (
	oracletypes "github.com/bandprotocol/chain/v3/x/oracle/types"
	"fmt"
	"time"

	sdk "github.com/cosmos/cosmos-sdk/types"

	feedstypes "github.com/bandprotocol/chain/v3/x/feeds/types"

	"verifsim/world"
)

// C15 — validators deactivated only for genuine misses; re-activation only after the penalty.
type C15 struct {
	prevFeedsKey   string
	lastListChange int64
	lastListChangeBlock int64
	nJustOracle, nJustFeeds, nEarlyReactivationRejected, nActivations int
}

func (m *C15) Prop() string { return "C15" }

func (m *C15) OnBlock(e *Env, blk *world.BlockRecord) {
	fs := getFeedsShadow(e)
	fs.Advance(e, blk)
	sincePre := fs.SincePre
	ctx := e.Ctx()
	ok := e.App().OracleKeeper
	fk := e.App().FeedsKeeper
	now := blk.Time

	// activations
	for _, a := range fs.JActivate {
		if a.Tx.OK() {
			if a.WasActive {
				e.Fail("C15", "activate_while_active", "", "MsgActivate by %s accepted although the validator was already active", a.Val)
				return
			}
			if a.EverDeact && a.TooEarly(a.PenaltyA) && a.TooEarly(a.PenaltyB) {
				e.Fail("C15", "reactivation_before_penalty_elapsed", "", "MsgActivate by %s accepted at %s; deactivated at %s, penalty %s", a.Val, a.Now.Format(time.RFC3339Nano), a.Since.Format(time.RFC3339Nano), fmtNanos(a.PenaltyA))
				return
			}
			m.nActivations++
			e.St.Trace("activate-ok")
			e.St.Covered(fmt.Sprintf("c15.activate.ok.everDeactivated=%v.penaltyChanged=%v", a.EverDeact, a.PenaltyA != a.PenaltyB))
		} else {
			if a.EverDeact && !a.WasActive && a.TooEarly(a.PenaltyA) {
				m.nEarlyReactivationRejected++
				e.St.Trace("activate-too-early")
				e.St.Covered(fmt.Sprintf("c15.activate.too_early.edgePenalty=%v", a.PenaltyA >= 1<<62))
			} else if !a.WasActive {
				e.St.Probe("c15_activation_rejected_unexpectedly")
			}
		}
	}
	// every deactivation needs a genuine miss
	grace := fk.GetParams(ctx).GracePeriod
	cf := fs.CurFeeds // the feed list used by this end block (after a possible update)
	// the model's own notion of "feed-list update": the last block at which the list's content (ids, order, intervals) changed.
	// On a correct chain it is never later than the chain's own stamp (refreshed at every recomputation), so judging by it can
	// only make a deactivation easier to justify, never harder; a stamp that is NOT refreshed when the content changes shows up.
	key := ""
	for _, f := range cf.Feeds {
		key += fmt.Sprintf("%s/%d;", f.SignalID, f.Interval)
	}
	if key != m.prevFeedsKey {
		m.prevFeedsKey, m.lastListChange, m.lastListChangeBlock = key, now.Unix(), blk.Height
	}
	listUpdate := m.lastListChange
	for _, d := range fs.JDeact {
		since := sincePre[d.Val]
		// activations in this very block move `since`
		for _, a := range fs.JActivate {
			if a.Val == d.Val && a.Tx.OK() {
				since = a.Now
			}
		}
		just := ""
		for _, r := range fs.Expired {
			chosen := false
			for _, c := range r.Chosen {
				if c == d.Val {
					chosen = true
				}
			}
			if chosen && !r.Reported[d.Val] && since.Before(r.Time) {
				just = "oracle"
			}
		}
		if just == "" {
			for _, f := range cf.Feeds {
				p, has := fs.Prices[d.Val][f.SignalID]
				stale := !has || p.Status == feedstypes.SIGNAL_PRICE_STATUS_UNSPECIFIED || p.Ts+f.Interval < now.Unix()
				// the block-height fallback: with slow blocks a miss also needs the block bound to have passed -- the feed-list update
				// block plus grace/3 and, for a validator that has reported (any status), the report's block plus interval/3
				blockBound := m.lastListChangeBlock + grace/feedstypes.MaxGuaranteeBlockTime
				if has && p.Status != feedstypes.SIGNAL_PRICE_STATUS_UNSPECIFIED {
					if b := p.Height + f.Interval/feedstypes.MaxGuaranteeBlockTime; b > blockBound {
						blockBound = b
					}
				}
				if stale && since.Unix()+grace < now.Unix() && listUpdate+grace < now.Unix() && blockBound < blk.Height {
					just = "feeds"
				}
			}
		}
		if just == "" {
			e.Fail("C15", "deactivated_without_miss", "", "validator %s deactivated at height %d (time %d) but: no expired request it was asked for (while active before the request) lacks its report, and it has a fresh price for every current feed or is within grace (active since %d, feed list updated %d, grace %d)",
				d.Val, blk.Height, now.Unix(), since.Unix(), listUpdate, grace)
			return
		}
		if just == "oracle" {
			m.nJustOracle++
		} else {
			m.nJustFeeds++
		}
		e.St.Trace("deactivated:" + just)
		e.St.Covered("c15.deactivated." + just)
	}
	// flags on chain equal the model (active only after an explicit activation since the last deactivation)
	for _, v := range e.W.Vals {
		st := ok.GetValidatorStatus(ctx, v.Val)
		if st.IsActive != fs.Active[v.Val.String()] {
			e.Fail("C15", "active_flag", "", "validator %s: chain active=%v, model (activation/deactivation history)=%v", v.Name, st.IsActive, fs.Active[v.Val.String()])
			return
		}
	}
	_ = sdk.ValAddress{}
	_ = world.Faults{}
	_ = fmt.Sprint
	// deadlines for the conductor: penalty ends, price expiries, grace ends
	for v, s := range fs.Since {
		if !fs.Active[v] && fs.EverDeact[v] {
			if fs.OracleParams.InactivePenaltyDuration < uint64(1000*time.Hour) {
				e.W.Deadlines = append(e.W.Deadlines, s.Add(time.Duration(fs.OracleParams.InactivePenaltyDuration)))
			}
		}
	}
	for _, f := range cf.Feeds {
		for _, v := range e.W.Vals {
			if p, has := fs.Prices[v.Val.String()][f.SignalID]; has {
				e.W.Deadlines = append(e.W.Deadlines, time.Unix(p.Ts+f.Interval, 0))
			}
		}
	}
	e.W.Deadlines = append(e.W.Deadlines, time.Unix(cf.LastUpdateTimestamp+grace, 0))
}

func (m *C15) Pending(e *Env) bool { return false }
func (m *C15) Finish(e *Env)       {}
func (m *C15) NonTrivial(e *Env) bool {
	e.St.ProbeN("c15_deactivations_justified_by_request_miss", m.nJustOracle)
	e.St.ProbeN("c15_deactivations_justified_by_price_miss", m.nJustFeeds)
	e.St.ProbeN("c15_early_reactivation_rejected", m.nEarlyReactivationRejected)
	e.St.ProbeN("c15_activations", m.nActivations)
	return (m.nJustOracle > 0 || m.nJustFeeds > 0) && m.nEarlyReactivationRejected > 0
}

func fmtNanos(n uint64) string {
	if n < 1<<62 {
		return time.Duration(n).String()
	}
	return fmt.Sprintf("%d ns", n)
}

// OraclePenaltyChurn: governance changes the oracle's inactive_penalty_duration while validators are being deactivated and
// re-activate, including values at the 2^63 / 2^64 boundaries of the unsigned nanosecond count (proposed only when parameter
// validation accepts them).
type OraclePenaltyChurn struct{ Rate int }

func (p *OraclePenaltyChurn) OnBlock(e *Env, blk *world.BlockRecord) {}
func (p *OraclePenaltyChurn) Act(e *Env) {
	if e.Draining || e.Step < 4 || !e.Ch.Bool("oracle.penaltychurn", p.Rate) {
		return
	}
	gov := getGov(e)
	if gov == nil {
		return
	}
	np := e.App().OracleKeeper.GetParams(e.Ctx())
	if e.Ch.Bool("oracle.penaltychurn.edge", 500) {
		np.InactivePenaltyDuration = []uint64{1<<63 - 1, 1 << 63, 1<<64 - 1, 1 << 62}[e.Ch.Intn("oracle.penaltychurn.edgev", 4)]
		e.St.Fault("inactive_penalty_duration_set_to_an_edge_value")
	} else {
		np.InactivePenaltyDuration = uint64(time.Duration(e.Ch.Range("oracle.penaltychurn.s", 0, 30)) * time.Second)
		e.St.Fault("inactive_penalty_duration_changed_by_governance")
	}
	if np.Validate() == nil {
		gov.Propose(e, "params_oracle", nil, &oracletypes.MsgUpdateParams{Authority: govAuthority, Params: np})
	}
}
