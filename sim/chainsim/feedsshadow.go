package chainsim

import (
	"time"

	feedstypes "github.com/bandprotocol/chain/v3/x/feeds/types"
	oracletypes "github.com/bandprotocol/chain/v3/x/oracle/types"

	"verifsim/world"
)

// FeedsShadow: model of validator prices, oracle activity flags and open data requests, shared by C06 and C15.

type vPrice struct {
	Status feedstypes.SignalPriceStatus
	Price  uint64
	Ts     int64
	Height int64
}

type jActivate struct {
	Tx         *world.TxRecord
	Val        string
	WasActive  bool
	EverDeact  bool
	Since      time.Time
	Now        time.Time
	PenaltyA   uint64 // inactive_penalty_duration (nanoseconds) before the block's parameter changes
	PenaltyB   uint64 // ... and after them
}

// TooEarly reports whether less than the penalty (an unsigned number of nanoseconds, whatever its magnitude) has passed
// between the deactivation and now.
func (a jActivate) TooEarly(penalty uint64) bool {
	el := a.Now.Sub(a.Since)
	return el < 0 || uint64(el) < penalty
}

type jDeact struct {
	Val    string
	Source string // oracle | feeds
}

type fsRequest struct {
	ID       uint64
	Chosen   []string
	Time     time.Time
	Reported map[string]bool
}

type FeedsShadow struct {
	height      int64
	inited      bool
	Prices      map[string]map[string]vPrice
	Active      map[string]bool
	Since       map[string]time.Time
	EverDeact   map[string]bool
	CurFeeds    feedstypes.CurrentFeeds // as of the previous block end
	OracleParams oracletypes.Params
	Requests    map[uint64]*fsRequest
	reqCount    uint64
	lastExpired uint64
	// journal
	JActivate []jActivate
	JDeact    []jDeact
	A0        map[string]bool // oracle-active right after the block's transactions
	Expired   []*fsRequest    // requests whose expiry was processed in this block
	FeedsPrev feedstypes.CurrentFeeds
	SincePre  map[string]time.Time // activity-since timestamps before this block
}

func NewFeedsShadow() *FeedsShadow {
	return &FeedsShadow{Prices: map[string]map[string]vPrice{}, Active: map[string]bool{}, Since: map[string]time.Time{}, EverDeact: map[string]bool{}, Requests: map[uint64]*fsRequest{}}
}

func getFeedsShadow(e *Env) *FeedsShadow { return e.Shared["feeds.shadow"].(*FeedsShadow) }

func (s *FeedsShadow) Advance(e *Env, blk *world.BlockRecord) {
	if s.height == blk.Height {
		return
	}
	s.height = blk.Height
	ctx := e.Ctx()
	ok := e.App().OracleKeeper
	fk := e.App().FeedsKeeper
	if !s.inited {
		s.inited = true
		if p, okp := e.Shared["oracle.genesis.params"].(oracletypes.Params); okp {
			s.OracleParams = p
		} else {
			s.OracleParams = oracletypes.DefaultParams()
		}
	}
	paramsAfter := ok.GetParams(ctx)
	s.JActivate, s.JDeact, s.Expired = nil, nil, nil
	s.SincePre = map[string]time.Time{}
	for k, v := range s.Since {
		s.SincePre[k] = v
	}
	s.FeedsPrev = s.CurFeeds
	cur := map[string]bool{}
	for _, f := range s.CurFeeds.Feeds {
		cur[f.SignalID] = true
	}
	for _, tx := range blk.Txs {
		for _, msg := range tx.Intent.Msgs {
			if am, isAct := msg.(*oracletypes.MsgActivate); isAct && len(tx.Intent.Msgs) == 1 && !infraReject(tx) {
				s.JActivate = append(s.JActivate, jActivate{Tx: tx, Val: am.Validator, WasActive: s.Active[am.Validator], EverDeact: s.EverDeact[am.Validator], Since: s.Since[am.Validator], Now: blk.Time,
					PenaltyA: s.OracleParams.InactivePenaltyDuration, PenaltyB: paramsAfter.InactivePenaltyDuration})
				if tx.OK() {
					s.Active[am.Validator] = true
					s.Since[am.Validator] = blk.Time
				}
			}
		}
		switch meta := tx.Intent.Meta.(type) {
		case *feederMeta:
			if !tx.OK() {
				continue
			}
			v := meta.Msg.Validator
			nl := map[string]vPrice{}
			for sig, p := range s.Prices[v] {
				if cur[sig] {
					nl[sig] = p
				}
			}
			for _, sp := range meta.Msg.SignalPrices {
				nl[sp.SignalID] = vPrice{Status: sp.Status, Price: sp.Price, Ts: blk.Time.Unix(), Height: blk.Height}
			}
			s.Prices[v] = nl
		case *reqMeta:
			if tx.OK() {
				s.reqCount++
				if rq, err := ok.GetRequest(ctx, oracletypes.RequestID(s.reqCount)); err == nil {
					s.Requests[s.reqCount] = &fsRequest{ID: s.reqCount, Chosen: rq.RequestedValidators, Time: blk.Time, Reported: map[string]bool{}}
				}
			}
		case *repMeta:
			if tx.OK() {
				if r := s.Requests[uint64(meta.Msg.RequestID)]; r != nil {
					r.Reported[meta.Msg.Validator] = true
				}
			}
		}
	}
	// end block: oracle expiry first, then feeds
	newLast := uint64(ok.GetRequestLastExpired(ctx))
	for id := s.lastExpired + 1; id <= newLast; id++ {
		if r := s.Requests[id]; r != nil {
			s.Expired = append(s.Expired, r)
			delete(s.Requests, id)
		}
	}
	s.lastExpired = newLast
	// activity flags right after the transactions (before any end-block deactivation)
	s.A0 = map[string]bool{}
	for v, a := range s.Active {
		if a {
			s.A0[v] = true
		}
	}
	for _, ev := range ParseEvents(blk.Resp.Events) {
		if ev.Mode != "EndBlock" || ev.Type != oracletypes.EventTypeDeactivate {
			continue
		}
		v := ev.Get(oracletypes.AttributeKeyValidator)
		s.JDeact = append(s.JDeact, jDeact{Val: v})
		s.Active[v] = false
		s.Since[v] = blk.Time
		s.EverDeact[v] = true
	}
	s.CurFeeds = fk.GetCurrentFeeds(ctx)
	s.OracleParams = paramsAfter
}
