package chainsim

import (
	tunneltypes "github.com/bandprotocol/chain/v3/x/tunnel/types"
	"fmt"

	sdk "github.com/cosmos/cosmos-sdk/types"

	"verifsim/world"
)

// C17 — tunnel deposits fully backed, owner-withdrawable, gate activation.
type C17 struct {
	firstMinDep   sdk.Coins
	minDepChanged bool
	nWithdrawDeactivates, nOverWithdrawRejected, nOps, nActivateRejected int
}

func (m *C17) Prop() string { return "C17" }

func (m *C17) OnBlock(e *Env, blk *world.BlockRecord) {
	ts := getTunnelShadow(e)
	ts.Advance(e, blk)
	ctx := e.Ctx()
	tk := e.App().TunnelKeeper
	for _, j := range ts.JOps {
		m.nOps++
		ok := j.Tx.OK()
		switch j.Meta.Kind {
		case "withdraw":
			own := j.T != nil && j.RecordPre.IsAllGTE(j.Meta.Amount) && !j.RecordPre.Empty()
			if ok && !own {
				e.Fail("C17", "withdraw_more_than_own_deposit", j.Meta.Aim, "%s withdrew %s from tunnel %d but its recorded deposit is %s (tunnel total %s)", j.Meta.Actor.Name, j.Meta.Amount, j.Meta.TunnelID, j.RecordPre, j.TotalPre)
				return
			}
			if !ok && !own {
				m.nOverWithdrawRejected++
			}
			if !ok && own && !infraReject(j.Tx) && j.Tx.Result.Codespace == tunneltypes.ModuleName && j.Meta.Amount.IsAllPositive() {
				// owner-withdrawable: a withdrawal within the depositor's own record is refused by the tunnel module
				e.Fail("C17", "own_deposit_not_withdrawable", "", "%s cannot withdraw %s from tunnel %d although its recorded deposit is %s: %s", j.Meta.Actor.Name, j.Meta.Amount, j.Meta.TunnelID, j.RecordPre, firstLine(j.Tx.Result.Log))
				return
			}
			if ok && j.ActivePre && !j.T.Total.IsAllGTE(j.MinDeposit) {
				m.nWithdrawDeactivates++
			}
			e.St.Trace(fmt.Sprintf("withdraw(%s,ok=%v)", j.Meta.Aim, ok))
			e.St.Covered(fmt.Sprintf("c17.withdraw.%s.ok=%v", j.Meta.Aim, ok))
		case "activate":
			legit := j.T != nil && j.IsCreator && !j.ActivePre && j.TotalPre.IsAllGTE(j.MinDeposit)
			if ok && !legit {
				why := "not_creator"
				switch {
				case j.T == nil:
					why = "no_tunnel"
				case j.ActivePre:
					why = "already_active"
				case !j.TotalPre.IsAllGTE(j.MinDeposit):
					why = "deposit_below_minimum"
				}
				e.Fail("C17", "activation_accepted", why, "MsgActivate(tunnel %d) by %s accepted: creator=%v total deposit %s minimum %s was active=%v", j.Meta.TunnelID, j.Meta.Actor.Name, j.IsCreator, j.TotalPre, j.MinDeposit, j.ActivePre)
				return
			}
			if !ok {
				m.nActivateRejected++
			}
			e.St.Trace(fmt.Sprintf("activate(ok=%v)", ok))
		case "deposit", "create":
			e.St.Trace(fmt.Sprintf("%s(%s,ok=%v)", j.Meta.Kind, j.Meta.Aim, ok))
		case "deactivate":
			if ok && (j.T == nil || !j.IsCreator) {
				e.Fail("C17", "deactivation_by_stranger", "", "MsgDeactivate(tunnel %d) by %s accepted although it is not the creator", j.Meta.TunnelID, j.Meta.Actor.Name)
				return
			}
		}
	}
	// "processed as active exactly when flagged active": every tunnel flagged active when the end blocker starts is looked at by
	// it -- one whose fee payer cannot pay is deactivated, one that is due gets a packet or a reported failure. A flagged tunnel
	// for which the end block shows nothing although one of the two applied was skipped.
	for _, jp := range ts.JPackets {
		if jp.Trigger {
			continue
		}
		if !jp.FundsOK && jp.Outcome != "deactivated" {
			e.Fail("C17", "flagged_active_but_not_processed", "unfunded", "tunnel %d is flagged active, its fee payer holds %s and a packet costs %s, yet the end block left it active (observed %q)", jp.T.ID, jp.PayerBal, jp.FeeNeeded, jp.Outcome)
			return
		}
		if jp.FundsOK && jp.Due && jp.Outcome == "none" {
			e.Fail("C17", "flagged_active_but_not_processed", "due", "tunnel %d is flagged active and due, yet the end block reported neither a packet nor a failure for it", jp.T.ID)
			return
		}
	}
	// records, totals, flags and balances equal the model: accepted operations moved exactly their amount, rejected ones nothing
	sumTotals := sdk.NewCoins()
	active := map[uint64]bool{}
	for _, id := range tk.GetActiveTunnelIDs(ctx) {
		active[id] = true
	}
	if got := tk.GetTunnelCount(ctx); got != uint64(len(ts.Tunnels)) {
		e.Fail("C17", "tunnel_count", "", "chain has %d tunnels, model %d", got, len(ts.Tunnels))
		return
	}
	for _, id := range ts.sortedIDs() {
		mt := ts.Tunnels[id]
		ct, err := tk.GetTunnel(ctx, id)
		if err != nil {
			e.Fail("C17", "tunnel_missing", "", "tunnel %d not found", id)
			return
		}
		recSum := sdk.NewCoins()
		deps := tk.GetDeposits(ctx, id)
		for _, d := range deps {
			recSum = recSum.Add(d.Amount...)
			if !d.Amount.Equal(mt.Deposits[d.Depositor]) {
				e.Fail("C17", "deposit_record", "", "tunnel %d: deposit record of %s is %s, model %s", id, d.Depositor, d.Amount, mt.Deposits[d.Depositor])
				return
			}
		}
		if len(deps) != len(mt.Deposits) {
			e.Fail("C17", "deposit_record", "count", "tunnel %d: %d deposit records, model %d", id, len(deps), len(mt.Deposits))
			return
		}
		if !ct.TotalDeposit.Equal(recSum) {
			e.Fail("C17", "total_not_sum_of_records", "", "tunnel %d: total deposit %s, records sum to %s", id, ct.TotalDeposit, recSum)
			return
		}
		if !ct.TotalDeposit.Equal(mt.Total) {
			e.Fail("C17", "total_deposit", "", "tunnel %d: total deposit %s, model %s", id, ct.TotalDeposit, mt.Total)
			return
		}
		if ct.IsActive != mt.Active {
			e.Fail("C17", "active_flag", "", "tunnel %d: chain active=%v, model %v (total %s, minimum %s)", id, ct.IsActive, mt.Active, ct.TotalDeposit, ts.Params.MinDeposit)
			return
		}
		if active[id] != ct.IsActive {
			e.Fail("C17", "active_index", "", "tunnel %d: flagged active=%v but in the active index=%v", id, ct.IsActive, active[id])
			return
		}
		// a consequence of the activation and withdrawal rules only while the minimum itself has not been changed by governance
		// (raising the minimum does not deactivate tunnels; nothing in the property says it should)
		if m.firstMinDep == nil {
			m.firstMinDep = ts.Params.MinDeposit
		}
		if !ts.Params.MinDeposit.Equal(m.firstMinDep) {
			m.minDepChanged = true
		}
		if !m.minDepChanged && ct.IsActive && !ct.TotalDeposit.IsAllGTE(ts.Params.MinDeposit) {
			e.Fail("C17", "active_below_minimum", "", "tunnel %d is active with total deposit %s below the minimum %s", id, ct.TotalDeposit, ts.Params.MinDeposit)
			return
		}
		sumTotals = sumTotals.Add(ct.TotalDeposit...)
	}
	for id := range active {
		if ts.Tunnels[id] == nil {
			e.Fail("C17", "active_index", "unknown", "active index holds unknown tunnel %d", id)
			return
		}
	}
	modBal := e.App().BankKeeper.GetAllBalances(ctx, sdk.MustAccAddressFromBech32(ts.module))
	if !modBal.IsAllGTE(sumTotals) {
		e.Fail("C17", "deposits_not_backed", "", "tunnel module account holds %s, total deposits %s", modBal, sumTotals)
		return
	}
	if d, ok := ts.L.Compare(e); !ok {
		e.Fail("C17", "ledger", "", "%s at height %d", d, blk.Height)
		return
	}
}

func (m *C17) Pending(e *Env) bool { return false }
func (m *C17) Finish(e *Env)       {}
func (m *C17) NonTrivial(e *Env) bool {
	e.St.ProbeN("c17_ops", m.nOps)
	e.St.ProbeN("c17_withdrawal_deactivates", m.nWithdrawDeactivates)
	e.St.ProbeN("c17_over_withdraw_rejected", m.nOverWithdrawRejected)
	e.St.ProbeN("c17_activate_rejected", m.nActivateRejected)
	return m.nWithdrawDeactivates > 0 && m.nOverWithdrawRejected > 0
}
