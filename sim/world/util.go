package world

import "runtime/debug"

func stack() []byte { return debug.Stack() }
