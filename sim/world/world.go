// Package world is the simulated environment of the chain engine: deterministic keys and genesis,
// replicas of the real BandApp over simulator-owned MemDBs, a consensus stub ("conductor") that
// builds real CometBFT headers and commits, and a mempool stub.
package world

import (
	"context"
	"encoding/json"
	"fmt"
	"os"
	"path/filepath"
	"sort"
	"strings"
	"time"

	abci "github.com/cometbft/cometbft/abci/types"
	cmtsecp "github.com/cometbft/cometbft/crypto/secp256k1"
	cmtproto "github.com/cometbft/cometbft/proto/tendermint/types"
	cmtversion "github.com/cometbft/cometbft/proto/tendermint/version"
	cmttypes "github.com/cometbft/cometbft/types"
	dbm "github.com/cosmos/cosmos-db"

	"cosmossdk.io/log"
	"cosmossdk.io/math"

	"github.com/cosmos/cosmos-sdk/baseapp"
	codectypes "github.com/cosmos/cosmos-sdk/codec/types"
	"github.com/cosmos/cosmos-sdk/crypto/keys/secp256k1"
	"github.com/cosmos/cosmos-sdk/testutil/sims"
	sdk "github.com/cosmos/cosmos-sdk/types"
	"github.com/cosmos/cosmos-sdk/types/tx/signing"
	authsign "github.com/cosmos/cosmos-sdk/x/auth/signing"
	authtypes "github.com/cosmos/cosmos-sdk/x/auth/types"
	banktypes "github.com/cosmos/cosmos-sdk/x/bank/types"
	slashingtypes "github.com/cosmos/cosmos-sdk/x/slashing/types"
	stakingtypes "github.com/cosmos/cosmos-sdk/x/staking/types"

	band "github.com/bandprotocol/chain/v3/app"
	tsskeeper "github.com/bandprotocol/chain/v3/x/tss/keeper"
	tsstypes "github.com/bandprotocol/chain/v3/x/tss/types"

	"verifsim/core"
)

func init() {
	band.SetBech32AddressPrefixesAndBip44CoinTypeAndSeal(sdk.GetConfig())
}

// ---------------------------------------------------------------------------------------------

type Account struct {
	Name string
	Priv *secp256k1.PrivKey
	Addr sdk.AccAddress
	Val  sdk.ValAddress
}

func NewAccount(seed uint64, name string) *Account {
	secret := []byte(fmt.Sprintf("verif-%d-%s", seed, name))
	priv := secp256k1.GenPrivKeyFromSecret(secret)
	a := sdk.AccAddress(priv.PubKey().Address())
	return &Account{Name: name, Priv: priv, Addr: a, Val: sdk.ValAddress(a)}
}

type Validator struct {
	*Account                  // operator account
	Cons     cmtsecp.PrivKey  // consensus key
	ConsAddr cmttypes.Address // 20 bytes
	Tokens   math.Int
}

type Config struct {
	Seed          uint64
	ChainID       string
	ValTokens     []int64 // uband per validator
	NumUsers      int
	Replicas      int
	InitialHeight int64
	GenesisTime   time.Time
	UserCoins     sdk.Coins
	// GenesisMods mutate the default genesis (module params etc).
	GenesisMods []func(w *World, gs band.GenesisState)
}

type Replica struct {
	ID     int
	DB     *dbm.MemDB
	Home   string
	App    *band.BandApp
	Alive  bool
	Height int64 // last committed height
}

// Intent is a transaction an actor wants on chain; it is signed when the conductor includes it.
type Intent struct {
	ID     int
	Signer *Account
	Msgs   []sdk.Msg
	Gas    uint64
	Fee    sdk.Coins
	Memo   string
	Tag    string
	Meta   any
	Hold   int  // blocks to keep in the mempool before it may be included
	Dup    bool // include the same signed bytes twice
	Retries int
	// RawBytes, when set, is delivered as is (pre-signed or garbage)
	RawBytes []byte
}

type TxRecord struct {
	Intent *Intent
	Bytes  []byte
	Result *abci.ExecTxResult
	Height int64
	Index  int
	IsDup  bool
}

func (t *TxRecord) OK() bool { return t.Result != nil && t.Result.Code == 0 }

type BlockRecord struct {
	Height   int64
	Time     time.Time
	Header   cmttypes.Header
	BlockID  cmttypes.BlockID
	Req      *abci.RequestFinalizeBlock
	Resp     *abci.ResponseFinalizeBlock
	Txs      []*TxRecord
	AppHash  []byte           // app hash after this block
	Commit   *cmttypes.Commit // commit FOR this block (decided when the next block is built)
	ValSet   *cmttypes.ValidatorSet
	InterOps []func(app *band.BandApp, ctx sdk.Context) error // module-level operations applied right after this block's commit
}

// Halt describes a panic or error in FinalizeBlock/Commit.
type Halt struct {
	Replica int
	Height  int64
	Phase   string
	Err     string
	Stack   string
}

type World struct {
	Ch    *core.Chooser
	Log   *core.Log
	Stats *core.Stats
	Cfg   Config

	Vals     []*Validator
	Users    []*Account
	Replicas []*Replica
	scratch  string

	Height   int64 // last committed height
	Time     time.Time
	Blocks   map[int64]*BlockRecord
	LastVals *cmttypes.ValidatorSet // validators of height Height
	CurVals  *cmttypes.ValidatorSet // validators of height Height+1
	NextVals *cmttypes.ValidatorSet // validators of height Height+2
	ConsParams cmttypes.ConsensusParams
	AppHash  []byte
	lastResultsHash []byte

	Mempool  []*Intent
	nextIntent int
	Deadlines []time.Time // published by monitors/actors, consumed by the time chooser
	// FailAssign: block height -> which signing creation of that block (1 = first) fails right after the selected members'
	// nonces were dequeued (fault point in x/tss, build tag verif). The decision depends only on the height and on the position
	// within the block's execution, so every replica and every re-execution after a crash takes the same one.
	FailAssign map[int64]int
	// FailAssignPanic: at these heights the injected failure is a panic instead of an error return -- but only when the creation
	// runs under one of the callers that promise to recover from a panic of the signing machinery (tunnel SendPacket, the oracle's
	// safeCreateSigning; a transaction is recovered by the SDK). Elsewhere it stays an error return.
	FailAssignPanic map[int64]bool
	// FailAssignSrc: when set for a height, only creations running under that caller are counted (a substring of the Go call
	// stack: the oracle's safeCreateSigning, the tunnel's SendPacket, the retry in HandleSigningEndBlock, a transaction's runTx),
	// so that the rarer sources get their share of the faults.
	FailAssignSrc map[int64]string
	assignIdx     int
	Halt     *Halt
	Divergence string
	DivergedResp [2]*abci.ResponseFinalizeBlock // the two block responses that differed (first replica, diverging replica)

	// fault switches (drawn per run by the engine)
	F Faults

	SimSeconds float64
	TxCount    int64
	genesisOps []func(app *band.BandApp, ctx sdk.Context) error
	initReq    *abci.RequestInitChain
}

type Faults struct {
	TxLoss, TxDelay, TxDup, Reorder int // permille
	AbsentVote, NilVote, RoundGT0    int
	TimeJump, SubSecond, DeadlineAim int
	Crash                            int
	OutOfGas                         int
}

var defaultConsensusParams = &cmtproto.ConsensusParams{
	Block:     &cmtproto.BlockParams{MaxBytes: 3000000, MaxGas: -1},
	Evidence:  &cmtproto.EvidenceParams{MaxAgeNumBlocks: 100000, MaxAgeDuration: 48 * time.Hour, MaxBytes: 1048576},
	Validator: &cmtproto.ValidatorParams{PubKeyTypes: []string{cmttypes.ABCIPubKeyTypeSecp256k1}},
	Version:   &cmtproto.VersionParams{App: 0},
}

func New(ch *core.Chooser, lg *core.Log, st *core.Stats, cfg Config, scratch string) (*World, error) {
	w := &World{Ch: ch, Log: lg, Stats: st, Cfg: cfg, Blocks: map[int64]*BlockRecord{}, scratch: scratch, FailAssign: map[int64]int{}, FailAssignPanic: map[int64]bool{}, FailAssignSrc: map[int64]string{}}
	// cooperative fault point in x/tss (guarded by the verif build tag in /repo): see FailAssign
	tsskeeper.VerifFailAfterDequeue = func(ctx sdk.Context) error {
		if ctx.ExecMode() != sdk.ExecModeFinalize {
			return nil
		}
		if src := w.FailAssignSrc[ctx.BlockHeight()]; src != "" && !strings.Contains(string(stack()), src) {
			return nil
		}
		w.assignIdx++
		if n, ok := w.FailAssign[ctx.BlockHeight()]; ok && n == w.assignIdx {
			if w.FailAssignPanic[ctx.BlockHeight()] {
				st := string(stack())
				if strings.Contains(st, "keeper.Keeper.SendPacket(") || strings.Contains(st, ".safeCreateSigning(") || strings.Contains(st, "baseapp.(*BaseApp).runTx(") {
					w.Stats.Fault("signing_creation_panicked_after_nonce_dequeue")
					panic("injected fault: panic in the signing creation after the nonces were dequeued")
				}
			}
			w.Stats.Fault("signing_creation_failed_after_nonce_dequeue")
			return tsstypes.ErrCreateSigningFailed.Wrap("injected fault: the creation fails after the nonces were dequeued")
		}
		return nil
	}
	for i, tok := range cfg.ValTokens {
		acc := NewAccount(cfg.Seed, fmt.Sprintf("val%d", i))
		cons := cmtsecp.GenPrivKeySecp256k1([]byte(fmt.Sprintf("verif-cons-%d-%d", cfg.Seed, i)))
		w.Vals = append(w.Vals, &Validator{Account: acc, Cons: cons, ConsAddr: cons.PubKey().Address(), Tokens: math.NewInt(tok)})
	}
	for i := 0; i < cfg.NumUsers; i++ {
		w.Users = append(w.Users, NewAccount(cfg.Seed, fmt.Sprintf("user%d", i)))
	}
	if cfg.InitialHeight <= 0 {
		w.Cfg.InitialHeight = 1
	}
	for i := 0; i < cfg.Replicas; i++ {
		home := filepath.Join(scratch, fmt.Sprintf("r%d", i))
		if err := os.MkdirAll(home, 0o755); err != nil {
			return nil, err
		}
		w.Replicas = append(w.Replicas, &Replica{ID: i, DB: dbm.NewMemDB(), Home: home})
	}
	if err := w.initChain(); err != nil {
		return nil, err
	}
	return w, nil
}

func (w *World) newApp(r *Replica) *band.BandApp {
	return band.NewBandApp(log.NewNopLogger(), r.DB, nil, true, map[int64]bool{}, r.Home,
		sims.EmptyAppOptions{}, 20, baseapp.SetChainID(w.Cfg.ChainID))
}

func (w *World) Close() {
	for _, r := range w.Replicas {
		if r.App != nil {
			r.App.Close()
			r.App = nil
		}
		os.RemoveAll(r.Home)
	}
}

// ExportImport restarts the chain the way an operator does across an upgrade: the primary replica's state is exported as a
// genesis document and a fresh application (empty database) is initialised from it. Only what the modules export survives;
// every derived index has to be rebuilt by InitGenesis. The returned context reads the imported state; call done() afterwards.
func (w *World) ExportImport() (app *band.BandApp, ctx sdk.Context, done func(), err error) {
	defer func() {
		if r := recover(); r != nil {
			err = fmt.Errorf("panic: %v", r)
		}
	}()
	src := w.Primary()
	exp, err := src.ExportAppStateAndValidators(false, nil, nil)
	if err != nil {
		return nil, sdk.Context{}, nil, fmt.Errorf("export: %w", err)
	}
	home := ""
	for _, r := range w.Replicas {
		if r.App == src {
			home = r.Home
		}
	}
	napp := band.NewBandApp(log.NewNopLogger(), dbm.NewMemDB(), nil, true, map[int64]bool{}, home,
		sims.EmptyAppOptions{}, 20, baseapp.SetChainID(w.Cfg.ChainID))
	cp := defaultConsensusParams
	if _, err := napp.InitChain(&abci.RequestInitChain{Time: w.Time, ChainId: w.Cfg.ChainID, ConsensusParams: cp,
		Validators: []abci.ValidatorUpdate{}, AppStateBytes: exp.AppState, InitialHeight: exp.Height}); err != nil {
		napp.Close()
		return nil, sdk.Context{}, nil, fmt.Errorf("InitChain on the exported state: %w", err)
	}
	c := napp.NewContextLegacy(false, cmtproto.Header{ChainID: w.Cfg.ChainID, Height: exp.Height, Time: w.Time})
	return napp, c, func() { napp.Close() }, nil
}

// Primary returns the first live replica's app.
func (w *World) Primary() *band.BandApp {
	for _, r := range w.Replicas {
		if r.Alive {
			return r.App
		}
	}
	return nil
}

func (w *World) ValByOperator(v sdk.ValAddress) *Validator {
	for _, x := range w.Vals {
		if x.Val.Equals(v) {
			return x
		}
	}
	return nil
}

// ReadCtx returns a throw-away cached context over the committed state of the primary replica.
func (w *World) ReadCtx() sdk.Context {
	return w.ReadCtxOf(w.Primary())
}

func (w *World) ReadCtxOf(app *band.BandApp) sdk.Context {
	hdr := cmtproto.Header{ChainID: w.Cfg.ChainID, Height: w.Height, Time: w.Time}
	ctx := app.BaseApp.NewUncachedContext(false, hdr)
	c, _ := ctx.CacheContext()
	return c
}

func (w *World) genesis(app *band.BandApp) (band.GenesisState, error) {
	cdc := app.AppCodec()
	gs := band.NewDefaultGenesisState(cdc)

	var genAccs []authtypes.GenesisAccount
	var balances []banktypes.Balance
	userCoins := w.Cfg.UserCoins
	if userCoins.Empty() {
		userCoins = sdk.NewCoins(sdk.NewInt64Coin("uband", 1_000_000_000_000), sdk.NewInt64Coin("uusd", 1_000_000_000), sdk.NewInt64Coin("uatom", 1_000_000_000))
	}
	for _, v := range w.Vals {
		genAccs = append(genAccs, &authtypes.BaseAccount{Address: v.Addr.String()})
		balances = append(balances, banktypes.Balance{Address: v.Addr.String(), Coins: userCoins})
	}
	for _, u := range w.Users {
		genAccs = append(genAccs, &authtypes.BaseAccount{Address: u.Addr.String()})
		balances = append(balances, banktypes.Balance{Address: u.Addr.String(), Coins: userCoins})
	}
	authGen := authtypes.NewGenesisState(authtypes.DefaultParams(), genAccs)
	authGen.Params.TxSizeCostPerByte = 5
	gs[authtypes.ModuleName] = cdc.MustMarshalJSON(authGen)

	var vals []stakingtypes.Validator
	var infos []slashingtypes.SigningInfo
	var dels []stakingtypes.Delegation
	bonded := math.ZeroInt()
	for _, v := range w.Vals {
		pk := &secp256k1.PubKey{Key: v.Cons.PubKey().Bytes()}
		pkAny, err := codectypes.NewAnyWithValue(pk)
		if err != nil {
			return nil, err
		}
		val := stakingtypes.Validator{
			OperatorAddress: v.Val.String(), ConsensusPubkey: pkAny, Status: stakingtypes.Bonded,
			Tokens: v.Tokens, DelegatorShares: math.LegacyNewDecFromInt(v.Tokens),
			UnbondingTime: time.Unix(0, 0).UTC(),
			Commission:    stakingtypes.NewCommission(math.LegacyZeroDec(), math.LegacyZeroDec(), math.LegacyZeroDec()),
			MinSelfDelegation: math.ZeroInt(),
		}
		consAddr, err := val.GetConsAddr()
		if err != nil {
			return nil, err
		}
		vals = append(vals, val)
		infos = append(infos, slashingtypes.SigningInfo{Address: sdk.ConsAddress(consAddr).String(),
			ValidatorSigningInfo: slashingtypes.NewValidatorSigningInfo(consAddr, 0, 0, time.Unix(0, 0), false, 0)})
		dels = append(dels, stakingtypes.NewDelegation(v.Addr.String(), v.Val.String(), math.LegacyNewDecFromInt(v.Tokens)))
		bonded = bonded.Add(v.Tokens)
	}
	sp := stakingtypes.DefaultParams()
	sp.BondDenom = "uband"
	sp.MaxValidators = 30
	sp.UnbondingTime = 3 * time.Hour
	gs[stakingtypes.ModuleName] = cdc.MustMarshalJSON(stakingtypes.NewGenesisState(sp, vals, dels))
	var slGen slashingtypes.GenesisState
	cdc.MustUnmarshalJSON(gs[slashingtypes.ModuleName], &slGen)
	slGen.SigningInfos = infos
	gs[slashingtypes.ModuleName] = cdc.MustMarshalJSON(&slGen)
	balances = append(balances, banktypes.Balance{
		Address: authtypes.NewModuleAddress(stakingtypes.BondedPoolName).String(),
		Coins:   sdk.NewCoins(sdk.NewCoin("uband", bonded)),
	})
	gs[banktypes.ModuleName] = cdc.MustMarshalJSON(banktypes.NewGenesisState(
		banktypes.DefaultGenesisState().Params, balances, nil, []banktypes.Metadata{}, []banktypes.SendEnabled{}))

	for _, m := range w.Cfg.GenesisMods {
		m(w, gs)
	}
	return gs, nil
}

func (w *World) initChain() error {
	var first *abci.ResponseInitChain
	var gsBytes []byte
	for _, r := range w.Replicas {
		r.App = w.newApp(r)
		r.Alive = true
		if gsBytes == nil {
			gs, err := w.genesis(r.App)
			if err != nil {
				return err
			}
			gsBytes, err = json.Marshal(gs)
			if err != nil {
				return err
			}
		}
		// every replica needs the genesis files in its own file cache
		for _, m := range w.Cfg.GenesisMods {
			_ = m
		}
		w.initReq = &abci.RequestInitChain{
			Time: w.Cfg.GenesisTime, ChainId: w.Cfg.ChainID, ConsensusParams: defaultConsensusParams,
			Validators: []abci.ValidatorUpdate{}, AppStateBytes: gsBytes, InitialHeight: w.Cfg.InitialHeight,
		}
		res, err := r.App.InitChain(w.initReq)
		if err != nil {
			return fmt.Errorf("InitChain replica %d: %w", r.ID, err)
		}
		if first == nil {
			first = res
		}
		r.Height = w.Cfg.InitialHeight - 1
	}
	vu, err := cmttypes.PB2TM.ValidatorUpdates(first.Validators)
	if err != nil {
		return err
	}
	if len(vu) == 0 {
		return fmt.Errorf("no genesis validators")
	}
	w.CurVals = cmttypes.NewValidatorSet(vu)
	w.NextVals = cmttypes.NewValidatorSet(vu).CopyIncrementProposerPriority(1)
	w.LastVals = cmttypes.NewValidatorSet(nil)
	w.ConsParams = cmttypes.ConsensusParamsFromProto(*defaultConsensusParams)
	w.AppHash = first.AppHash
	w.Height = w.Cfg.InitialHeight - 1
	w.Time = w.Cfg.GenesisTime
	w.lastResultsHash = cmttypes.NewResults(nil).Hash()
	return nil
}

// ---------------------------------------------------------------------------------------------
// Mempool

func (w *World) Submit(in *Intent) *Intent {
	w.nextIntent++
	in.ID = w.nextIntent
	if in.RawBytes == nil {
		if w.F.TxLoss > 0 && w.Ch.Bool("mempool.loss", w.F.TxLoss) {
			w.Stats.Fault("tx_loss")
			w.Log.Add("mempool drop intent %d %s", in.ID, in.Tag)
			return in
		}
		if w.F.TxDelay > 0 && w.Ch.Bool("mempool.delay", w.F.TxDelay) {
			in.Hold += 1 + w.Ch.Intn("mempool.delay.n", 4)
			w.Stats.Fault("tx_delay")
		}
		if w.F.TxDup > 0 && w.Ch.Bool("mempool.dup", w.F.TxDup) {
			in.Dup = true
			w.Stats.Fault("tx_dup")
		}
	}
	w.Mempool = append(w.Mempool, in)
	return in
}

// takeTxs drains the intents that are due, in an order chosen by the tape.
func (w *World) takeTxs(maxTxs int) []*Intent {
	var due, rest []*Intent
	for _, in := range w.Mempool {
		if in.Hold > 0 {
			in.Hold--
			rest = append(rest, in)
		} else if len(due) < maxTxs {
			due = append(due, in)
		} else {
			rest = append(rest, in)
		}
	}
	w.Mempool = rest
	if len(due) > 1 && w.F.Reorder > 0 && w.Ch.Bool("mempool.reorder", w.F.Reorder) {
		p := w.Ch.Perm("mempool.perm", len(due))
		out := make([]*Intent, len(due))
		for i, j := range p {
			out[i] = due[j]
		}
		due = out
		w.Stats.Fault("tx_reorder")
	}
	return due
}

// SignTx signs msgs with the signer's current account number/sequence (+ offset for earlier txs in
// the same block).
func (w *World) SignTx(in *Intent, seqOffset uint64) ([]byte, error) {
	app := w.Primary()
	ctx := w.ReadCtx()
	acc := app.AccountKeeper.GetAccount(ctx, in.Signer.Addr)
	if acc == nil {
		return nil, fmt.Errorf("no account %s", in.Signer.Name)
	}
	txc := app.GetTxConfig()
	signMode, err := authsign.APISignModeToInternal(txc.SignModeHandler().DefaultMode())
	if err != nil {
		return nil, err
	}
	seq := acc.GetSequence() + seqOffset
	sig := signing.SignatureV2{PubKey: in.Signer.Priv.PubKey(), Data: &signing.SingleSignatureData{SignMode: signMode}, Sequence: seq}
	b := txc.NewTxBuilder()
	if err := b.SetMsgs(in.Msgs...); err != nil {
		return nil, err
	}
	if err := b.SetSignatures(sig); err != nil {
		return nil, err
	}
	b.SetMemo(in.Memo)
	b.SetFeeAmount(in.Fee)
	gas := in.Gas
	if gas == 0 {
		gas = 50_000_000
	}
	b.SetGasLimit(gas)
	sd := authsign.SignerData{Address: in.Signer.Addr.String(), ChainID: w.Cfg.ChainID, AccountNumber: acc.GetAccountNumber(), Sequence: seq, PubKey: in.Signer.Priv.PubKey()}
	sb, err := authsign.GetSignBytesAdapter(context.Background(), txc.SignModeHandler(), signMode, sd, b.GetTx())
	if err != nil {
		return nil, err
	}
	s, err := in.Signer.Priv.Sign(sb)
	if err != nil {
		return nil, err
	}
	sig.Data.(*signing.SingleSignatureData).Signature = s
	if err := b.SetSignatures(sig); err != nil {
		return nil, err
	}
	return txc.TxEncoder()(b.GetTx())
}

// ---------------------------------------------------------------------------------------------
// Conductor

var timeSteps = []time.Duration{time.Second, 2 * time.Second, 3 * time.Second, 500 * time.Millisecond, time.Millisecond, 7 * time.Second, 60 * time.Second, 10 * time.Minute}

func (w *World) chooseTime() time.Time {
	// deadline-aimed
	if len(w.Deadlines) > 0 && w.F.DeadlineAim > 0 && w.Ch.Bool("time.aim", w.F.DeadlineAim) {
		var fut []time.Time
		for _, d := range w.Deadlines {
			if d.After(w.Time.Add(-2*time.Second)) && d.Before(w.Time.Add(30*time.Minute)) {
				fut = append(fut, d)
			}
		}
		if len(fut) > 0 {
			sort.Slice(fut, func(i, j int) bool { return fut[i].Before(fut[j]) })
			d := fut[w.Ch.Intn("time.aim.which", min(len(fut), 3))]
			offs := []time.Duration{0, -time.Second, time.Second, -time.Nanosecond, time.Nanosecond}
			t := d.Add(offs[w.Ch.Intn("time.aim.off", len(offs))])
			if t.After(w.Time) {
				w.Stats.Fault("time_deadline_aim")
				return t
			}
		}
	}
	idx := 0
	if w.F.SubSecond > 0 && w.Ch.Bool("time.sub", w.F.SubSecond) {
		idx = 3 + w.Ch.Intn("time.sub.k", 2)
		w.Stats.Fault("time_subsecond")
	} else if w.F.TimeJump > 0 && w.Ch.Bool("time.jump", w.F.TimeJump) {
		idx = 5 + w.Ch.Intn("time.jump.k", 3)
		w.Stats.Fault("time_jump")
	} else {
		idx = w.Ch.Intn("time.step", 3)
	}
	return w.Time.Add(timeSteps[idx])
}

// decideCommit builds the commit for the last block (height w.Height) signed by LastVals.
func (w *World) decideCommit() *cmttypes.Commit {
	prev := w.Blocks[w.Height]
	if prev == nil {
		return &cmttypes.Commit{}
	}
	vs := prev.ValSet
	n := vs.Size()
	flags := make([]cmttypes.BlockIDFlag, n)
	total := vs.TotalVotingPower()
	signed := total
	for i := range flags {
		flags[i] = cmttypes.BlockIDFlagCommit
	}
	// drop some voters while > 2/3 remains
	for _, i := range w.Ch.Perm("commit.order", n) {
		p := vs.Validators[i].VotingPower
		if (signed-p)*3 <= total*2 {
			continue
		}
		if w.F.AbsentVote > 0 && w.Ch.Bool("commit.absent", w.F.AbsentVote) {
			flags[i] = cmttypes.BlockIDFlagAbsent
			signed -= p
			w.Stats.Fault("vote_absent")
		} else if w.F.NilVote > 0 && w.Ch.Bool("commit.nil", w.F.NilVote) {
			flags[i] = cmttypes.BlockIDFlagNil
			signed -= p
			w.Stats.Fault("vote_nil")
		}
	}
	round := int32(0)
	if w.F.RoundGT0 > 0 && w.Ch.Bool("commit.round", w.F.RoundGT0) {
		round = int32(1 + w.Ch.Intn("commit.round.n", 3))
		w.Stats.Fault("commit_round_gt0")
	}
	c := &cmttypes.Commit{Height: prev.Height, Round: round, BlockID: prev.BlockID}
	for i, v := range vs.Validators {
		cs := cmttypes.CommitSig{BlockIDFlag: flags[i]}
		if flags[i] != cmttypes.BlockIDFlagAbsent {
			cs.ValidatorAddress = v.Address
			// vote timestamp: block time plus a small skew; sometimes whole seconds (nanos = 0)
			ts := prev.Time.Add(time.Duration(w.Ch.Intn("commit.ts", 2000)) * time.Millisecond)
			if w.Ch.Bool("commit.ts.whole", 150) {
				ts = ts.Truncate(time.Second)
			}
			cs.Timestamp = ts
		}
		c.Signatures = append(c.Signatures, cs)
	}
	// sign
	for i, v := range vs.Validators {
		if flags[i] == cmttypes.BlockIDFlagAbsent {
			continue
		}
		val := w.valByCons(v.Address)
		if val == nil {
			continue
		}
		vote := c.GetVote(int32(i))
		sb := cmttypes.VoteSignBytes(w.Cfg.ChainID, vote.ToProto())
		sig, err := val.Cons.Sign(sb)
		if err != nil {
			panic(err)
		}
		c.Signatures[i].Signature = sig
	}
	return c
}

func (w *World) valByCons(a cmttypes.Address) *Validator {
	for _, v := range w.Vals {
		if string(v.ConsAddr) == string(a) {
			return v
		}
	}
	return nil
}

// AddValidatorKey registers a validator created during the run so that it can sign commits.
func (w *World) AddValidatorKey(v *Validator) { w.Vals = append(w.Vals, v) }

type BlockOpts struct {
	MaxTxs int
	Time   *time.Time // block time chosen by the caller (daemon engines tie it to the fake clock)
}

// NextBlock builds, executes and commits one block on all live replicas.
func (w *World) NextBlock(opts BlockOpts) *BlockRecord {
	if w.Halt != nil || w.Divergence != "" {
		return nil
	}
	height := w.Height + 1
	commit := w.decideCommit()
	if prev := w.Blocks[w.Height]; prev != nil {
		prev.Commit = commit
	}
	t := w.chooseTime()
	if opts.Time != nil {
		t = *opts.Time
	}
	if !t.After(w.Time) {
		t = w.Time.Add(time.Millisecond)
	}
	w.SimSeconds += t.Sub(w.Time).Seconds()
	maxTxs := opts.MaxTxs
	if maxTxs == 0 {
		maxTxs = 1000
	}
	intents := w.takeTxs(maxTxs)
	blk := &BlockRecord{Height: height, Time: t, ValSet: w.CurVals.Copy()}
	seqOff := map[string]uint64{}
	var raw [][]byte
	for _, in := range intents {
		var bz []byte
		if in.RawBytes != nil {
			bz = in.RawBytes
		} else {
			if w.F.OutOfGas > 0 && in.Gas == 0 && w.Ch.Bool("tx.oog", w.F.OutOfGas) {
				in.Gas = uint64(60_000 + w.Ch.Intn("tx.oog.gas", 400_000))
				w.Stats.Fault("tx_tight_gas")
			}
			var err error
			bz, err = w.SignTx(in, seqOff[in.Signer.Addr.String()])
			if err != nil {
				// the signer's account is not committed yet (e.g. before the first block): try again next block
				w.Log.Add("sign error intent %d: %v", in.ID, err)
				if in.Retries < 3 {
					in.Retries++
					w.Mempool = append(w.Mempool, in)
				}
				continue
			}
			seqOff[in.Signer.Addr.String()]++
		}
		blk.Txs = append(blk.Txs, &TxRecord{Intent: in, Bytes: bz, Height: height, Index: len(raw)})
		raw = append(raw, bz)
		if in.Dup {
			blk.Txs = append(blk.Txs, &TxRecord{Intent: in, Bytes: bz, Height: height, Index: len(raw), IsDup: true})
			raw = append(raw, bz)
		}
	}
	// header
	proposer := w.CurVals.GetProposer()
	hdr := cmttypes.Header{
		Version: cmtversion.Consensus{Block: 11, App: 0}, ChainID: w.Cfg.ChainID, Height: height, Time: t,
		LastCommitHash: commit.Hash(), DataHash: cmttypes.ToTxs(raw).Hash(),
		ValidatorsHash: w.CurVals.Hash(), NextValidatorsHash: w.NextVals.Hash(),
		ConsensusHash: w.ConsParams.Hash(), AppHash: w.AppHash, LastResultsHash: w.lastResultsHash,
		EvidenceHash: cmttypes.EvidenceList{}.Hash(), ProposerAddress: proposer.Address,
	}
	if prev := w.Blocks[w.Height]; prev != nil {
		hdr.LastBlockID = prev.BlockID
	}
	blk.Header = hdr
	bh := hdr.Hash()
	blk.BlockID = cmttypes.BlockID{Hash: bh, PartSetHeader: cmttypes.PartSetHeader{Total: 1, Hash: cmttypes.Tx(bh).Hash()}}
	// last commit info
	var votes []abci.VoteInfo
	if prev := w.Blocks[w.Height]; prev != nil {
		for i, v := range prev.ValSet.Validators {
			votes = append(votes, abci.VoteInfo{
				Validator:   abci.Validator{Address: v.Address, Power: v.VotingPower},
				BlockIdFlag: cmtproto.BlockIDFlag(commit.Signatures[i].BlockIDFlag),
			})
		}
	}
	req := &abci.RequestFinalizeBlock{
		Txs: raw, DecidedLastCommit: abci.CommitInfo{Round: commit.Round, Votes: votes}, Hash: bh, Height: height,
		Time: t, NextValidatorsHash: hdr.NextValidatorsHash, ProposerAddress: hdr.ProposerAddress,
	}
	blk.Req = req
	w.Log.Add("block %d t=%d.%09d txs=%d proposer=%X", height, t.Unix(), t.Nanosecond(), len(raw), proposer.Address[:4])

	var primaryResp *abci.ResponseFinalizeBlock
	for _, r := range w.Replicas {
		if !r.Alive {
			continue
		}
		// crash before FinalizeBlock
		if w.F.Crash > 0 && w.liveCount() > 1 && w.Ch.Bool("crash.pre", w.F.Crash) {
			w.crash(r, "pre_finalize")
			continue
		}
		resp := w.finalize(r, req)
		if w.Halt != nil {
			return blk
		}
		if w.F.Crash > 0 && w.liveCount() > 1 && w.Ch.Bool("crash.mid", w.F.Crash) {
			w.crash(r, "between_finalize_and_commit")
			continue
		}
		if primaryResp == nil {
			primaryResp = resp
		} else if d := diffResponses(primaryResp, resp); d != "" {
			w.Divergence = fmt.Sprintf("height %d replica %d: %s", height, r.ID, d)
			w.DivergedResp = [2]*abci.ResponseFinalizeBlock{primaryResp, resp}
			return blk
		}
		if err := w.commit(r); err != nil {
			return blk
		}
		r.Height = height
		if w.F.Crash > 0 && w.liveCount() > 1 && w.Ch.Bool("crash.post", w.F.Crash) {
			w.crash(r, "post_commit")
		}
	}
	if primaryResp == nil {
		panic("no live replica executed the block")
	}
	blk.Resp = primaryResp
	blk.AppHash = primaryResp.AppHash
	for i, tr := range blk.Txs {
		tr.Result = primaryResp.TxResults[i]
		w.TxCount++
		w.Log.Add(" tx %d %s code=%d/%s gas=%d", tr.Intent.ID, tr.Intent.Tag, tr.Result.Code, tr.Result.Codespace, tr.Result.GasUsed)
	}
	w.Log.Add(" apphash %X", blk.AppHash)
	// advance consensus state
	w.Blocks[height] = blk
	w.Height = height
	w.Time = t
	w.AppHash = primaryResp.AppHash
	w.lastResultsHash = cmttypes.NewResults(primaryResp.TxResults).Hash()
	nv := w.NextVals.Copy()
	if len(primaryResp.ValidatorUpdates) > 0 {
		vu, err := cmttypes.PB2TM.ValidatorUpdates(primaryResp.ValidatorUpdates)
		if err == nil {
			if err := nv.UpdateWithChangeSet(vu); err != nil {
				w.Log.Add("valset update error: %v", err)
			}
		}
		w.Stats.Probe("validator_set_update")
	}
	nv.IncrementProposerPriority(1)
	w.LastVals = w.CurVals
	w.CurVals = w.NextVals.Copy()
	w.NextVals = nv
	if primaryResp.ConsensusParamUpdates != nil {
		w.ConsParams = w.ConsParams.Update(primaryResp.ConsensusParamUpdates)
	}
	// restarts
	for _, r := range w.Replicas {
		if !r.Alive && w.Ch.Bool("restart", 400) {
			w.restart(r)
			if w.Halt != nil || w.Divergence != "" {
				return blk
			}
		}
	}
	w.Deadlines = w.Deadlines[:0]
	return blk
}

// ApplyInterOp runs a module-level operation (a keeper call another module would make) on every live replica between
// two blocks, directly on the uncommitted working state, and records it so that a restarted replica re-applies it.
func (w *World) ApplyInterOp(op func(app *band.BandApp, ctx sdk.Context) error) error {
	var first error
	for i, r := range w.Replicas {
		if !r.Alive {
			continue
		}
		err := op(r.App, w.interCtx(r.App))
		if i == 0 || first == nil {
			first = err
		}
	}
	if blk := w.Blocks[w.Height]; blk != nil {
		blk.InterOps = append(blk.InterOps, op)
	} else {
		w.genesisOps = append(w.genesisOps, op)
	}
	return first
}

func (w *World) interCtx(app *band.BandApp) sdk.Context {
	hdr := cmtproto.Header{ChainID: w.Cfg.ChainID, Height: w.Height, Time: w.Time}
	return app.BaseApp.NewUncachedContext(false, hdr)
}

func (w *World) interCtxAt(app *band.BandApp, b *BlockRecord) sdk.Context {
	hdr := cmtproto.Header{ChainID: w.Cfg.ChainID, Height: b.Height, Time: b.Time}
	return app.BaseApp.NewUncachedContext(false, hdr)
}

func (w *World) liveCount() int {
	n := 0
	for _, r := range w.Replicas {
		if r.Alive {
			n++
		}
	}
	return n
}

func (w *World) finalize(r *Replica, req *abci.RequestFinalizeBlock) (resp *abci.ResponseFinalizeBlock) {
	defer func() {
		if e := recover(); e != nil {
			w.Halt = &Halt{Replica: r.ID, Height: req.Height, Phase: "FinalizeBlock", Err: fmt.Sprint(e), Stack: string(stack())}
		}
	}()
	wd := stallWatch("FinalizeBlock", r.ID, req.Height)
	defer wd.Stop()
	w.assignIdx = 0
	resp, err := r.App.FinalizeBlock(req)
	if err != nil {
		w.Halt = &Halt{Replica: r.ID, Height: req.Height, Phase: "FinalizeBlock", Err: err.Error()}
	}
	return resp
}

func (w *World) commit(r *Replica) (err error) {
	defer func() {
		if e := recover(); e != nil {
			w.Halt = &Halt{Replica: r.ID, Height: r.Height + 1, Phase: "Commit", Err: fmt.Sprint(e), Stack: string(stack())}
			err = fmt.Errorf("panic")
		}
	}()
	_, err = r.App.Commit()
	if err != nil {
		w.Halt = &Halt{Replica: r.ID, Height: r.Height + 1, Phase: "Commit", Err: err.Error()}
	}
	return err
}

func (w *World) crash(r *Replica, point string) {
	w.Stats.Fault("replica_crash_" + point)
	w.Log.Add("crash replica %d at %s", r.ID, point)
	// only the DB survives
	r.App = nil
	r.Alive = false
}

func (w *World) restart(r *Replica) {
	w.Stats.Fault("replica_restart")
	r.App = w.newApp(r)
	r.Alive = true
	r.Height = r.App.LastBlockHeight()
	if r.Height == 0 {
		// nothing was ever committed: like CometBFT's handshake, replay InitChain from the genesis document
		r.Height = w.Cfg.InitialHeight - 1
		if _, err := r.App.InitChain(w.initReq); err != nil {
			w.Halt = &Halt{Replica: r.ID, Height: r.Height, Phase: "InitChain(restart)", Err: err.Error()}
			return
		}
		for _, op := range w.genesisOps {
			_ = op(r.App, w.interCtx(r.App))
		}
	}
	w.Log.Add("restart replica %d at committed height %d", r.ID, r.Height)
	reapply := func(h int64) {
		if b := w.Blocks[h]; b != nil {
			for _, op := range b.InterOps {
				_ = op(r.App, w.interCtxAt(r.App, b))
			}
		}
	}
	reapply(r.Height)
	for h := r.Height + 1; h <= w.Height; h++ {
		blk := w.Blocks[h]
		resp := w.finalize(r, blk.Req)
		if w.Halt != nil {
			return
		}
		if d := diffResponses(blk.Resp, resp); d != "" {
			w.Divergence = fmt.Sprintf("height %d replica %d (re-execution after restart): %s", h, r.ID, d)
			return
		}
		if err := w.commit(r); err != nil {
			return
		}
		r.Height = h
		reapply(h)
		w.Stats.Probe("block_reexecuted_after_restart")
	}
}

func diffResponses(a, b *abci.ResponseFinalizeBlock) string {
	if string(a.AppHash) != string(b.AppHash) {
		// find first differing tx for the message
		for i := range a.TxResults {
			if i < len(b.TxResults) {
				if d := diffTx(a.TxResults[i], b.TxResults[i]); d != "" {
					return fmt.Sprintf("app hash %X != %X; tx %d: %s", a.AppHash, b.AppHash, i, d)
				}
			}
		}
		return fmt.Sprintf("app hash %X != %X", a.AppHash, b.AppHash)
	}
	if len(a.TxResults) != len(b.TxResults) {
		return "tx result count"
	}
	for i := range a.TxResults {
		if d := diffTx(a.TxResults[i], b.TxResults[i]); d != "" {
			return fmt.Sprintf("tx %d: %s", i, d)
		}
	}
	if len(a.ValidatorUpdates) != len(b.ValidatorUpdates) {
		return "validator update count"
	}
	for i := range a.ValidatorUpdates {
		if !a.ValidatorUpdates[i].PubKey.Equal(b.ValidatorUpdates[i].PubKey) || a.ValidatorUpdates[i].Power != b.ValidatorUpdates[i].Power {
			return fmt.Sprintf("validator update %d", i)
		}
	}
	return ""
}

func diffTx(x, y *abci.ExecTxResult) string {
	switch {
	case x.Code != y.Code:
		return fmt.Sprintf("code %d != %d", x.Code, y.Code)
	case x.Codespace != y.Codespace:
		return "codespace"
	case x.GasWanted != y.GasWanted:
		return "gas_wanted"
	case x.GasUsed != y.GasUsed:
		return fmt.Sprintf("gas_used %d != %d", x.GasUsed, y.GasUsed)
	case string(x.Data) != string(y.Data):
		return "data"
	}
	return ""
}
