package world

import (
	"fmt"
	"os"
	"runtime"
	"strconv"
	"time"
)

// Block execution must be total (C02): a FinalizeBlock that never returns halts every node that executes the block.
// A run cannot observe "never", and the stalled goroutine cannot be interrupted, so a watchdog on the real clock ends
// the process when one block has been executing for stallLimit (blocks normally take milliseconds; the limit is
// four to five orders of magnitude above that, also under full machine load). The driver (check) turns the marker line
// into a violation whose replay re-runs the seed in a fresh process and must stall again. The watchdog never fires in
// a run that holds the property, reads no state and draws nothing from the PRNG, so it cannot perturb a schedule.
var stallLimit = func() time.Duration {
	if s, err := strconv.Atoi(os.Getenv("VERIF_STALL_S")); err == nil && s > 0 {
		return time.Duration(s) * time.Second
	}
	return 150 * time.Second
}()

// StallExitCode is the exit status of a worker process ended by the watchdog.
const StallExitCode = 3

func stallWatch(phase string, replica int, height int64) *time.Timer {
	return time.AfterFunc(stallLimit, func() {
		buf := make([]byte, 4<<20)
		n := runtime.Stack(buf, true)
		fmt.Fprintf(os.Stderr, "\nVERIF-STALL: %s of height %d on replica %d has not returned after %s of wall time\n%s\n", phase, height, replica, stallLimit, buf[:n])
		os.Exit(StallExitCode)
	})
}
