package grogusim

import (
	"runtime"
	"testing"

	"verifsim/core"
)

func TestWorker(t *testing.T) {
	runtime.GOMAXPROCS(1)
	core.WorkerMain(t, core.Engine{Name: "grogusim", Run: func(o core.RunOpts) *core.RunResult {
		var res *core.RunResult
		o.T.Run("run", func(t *testing.T) {
			o2 := o
			o2.T = t
			res = RunOne(o2)
		})
		return res
	}})
}
