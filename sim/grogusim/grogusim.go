// Package grogusim runs the REAL grogu signaller and submitter goroutines (wired as cmd/grogu/cmd/run.go does) inside a
// testing/synctest bubble against a real BandApp with the real feeds module. The fake clock of the bubble is the chain's
// clock: the conductor produces a block whenever fake time reaches the next block time. Every querier / RPC / price-service
// call parks; a seeded scheduler releases one at a time.
package grogusim

import (
	"math/big"
	"context"
	"crypto/sha256"
	"encoding/hex"
	"errors"
	"fmt"
	"os"
	"runtime"
	"sort"
	"strconv"
	"strings"
	"sync"
	"testing"
	"testing/synctest"
	"time"

	abci "github.com/cometbft/cometbft/abci/types"
	cmtbytes "github.com/cometbft/cometbft/libs/bytes"
	rpcclient "github.com/cometbft/cometbft/rpc/client"
	coretypes "github.com/cometbft/cometbft/rpc/core/types"
	cmttypes "github.com/cometbft/cometbft/types"

	"cosmossdk.io/log"

	"github.com/cosmos/cosmos-sdk/client"
	codectypes "github.com/cosmos/cosmos-sdk/codec/types"
	"github.com/cosmos/cosmos-sdk/crypto/hd"
	"github.com/cosmos/cosmos-sdk/crypto/keyring"
	sdk "github.com/cosmos/cosmos-sdk/types"
	authtypes "github.com/cosmos/cosmos-sdk/x/auth/types"
	"github.com/cosmos/cosmos-sdk/x/authz"
	banktypes "github.com/cosmos/cosmos-sdk/x/bank/types"
	stakingtypes "github.com/cosmos/cosmos-sdk/x/staking/types"

	bothan "github.com/bandprotocol/bothan/bothan-api/client/go-client/proto/bothan/v1"

	band "github.com/bandprotocol/chain/v3/app"
	"github.com/bandprotocol/chain/v3/grogu/signaller"
	"github.com/bandprotocol/chain/v3/grogu/submitter"
	"github.com/bandprotocol/chain/v3/pkg/logger"
	feedskeeper "github.com/bandprotocol/chain/v3/x/feeds/keeper"
	feedstypes "github.com/bandprotocol/chain/v3/x/feeds/types"
	oracletypes "github.com/bandprotocol/chain/v3/x/oracle/types"

	"verifsim/chainsim"
	"verifsim/core"
	"verifsim/world"
)

// ---------------------------------------------------------------------------------------------
// scheduler (same discipline as yodasim)

type gate struct {
	label   string
	goid    uint64
	release chan struct{}
}

func goid() uint64 {
	var buf [64]byte
	n := runtime.Stack(buf[:], false)
	f := strings.Fields(string(buf[:n]))
	if len(f) < 2 {
		return 0
	}
	id, _ := strconv.ParseUint(f[1], 10, 64)
	return id
}

type sched struct {
	mu      sync.Mutex
	parked  []*gate
	ch      *core.Chooser
	lg      *core.Log
	tick    int64
	frozen  bool
	choices int
}

func (s *sched) park(label string) {
	g := &gate{label: label, goid: goid(), release: make(chan struct{})}
	s.mu.Lock()
	s.parked = append(s.parked, g)
	s.mu.Unlock()
	<-g.release
	s.mu.Lock()
	s.tick++
	d := time.Duration(s.tick%1000) * time.Nanosecond
	s.mu.Unlock()
	time.Sleep(d)
}

// releaseOne releases one parked call chosen by the tape; false when nothing is parked.
func (s *sched) releaseOne() bool {
	s.mu.Lock()
	n := len(s.parked)
	if n == 0 || s.frozen {
		s.mu.Unlock()
		return false
	}
	sort.SliceStable(s.parked, func(i, j int) bool {
		if s.parked[i].label != s.parked[j].label {
			return s.parked[i].label < s.parked[j].label
		}
		return s.parked[i].goid < s.parked[j].goid
	})
	i := s.ch.Intn("sched", n)
	g := s.parked[i]
	s.parked = append(s.parked[:i], s.parked[i+1:]...)
	s.mu.Unlock()
	if n > 1 {
		s.choices++
	}
	s.lg.Add("release %s (of %d)", g.label, n)
	close(g.release)
	return true
}

// ---------------------------------------------------------------------------------------------
// stubs over the real application

type node struct {
	rpcclient.Client
	s      *sched
	w      *world.World
	st     *core.Stats
	ch     *core.Chooser
	faults *faultCfg
	mu     sync.Mutex
	txs    map[string]*txInfo // by hash
	onAdmissionReject func(tx []byte, res *abci.ResponseCheckTx)
	order  []*txInfo
}

type txInfo struct {
	Hash      string
	Bytes     []byte
	Signals   []string
	UUID      string
	Broadcast time.Time
	Included  bool
	Lost      bool
	Result    *abci.ExecTxResult
	Height    int64
	FeedsAt   map[string]bool // current feeds when the tx was broadcast
}

type faultCfg struct {
	On                                          bool
	BroadcastErr, TxLost, QueryErr, OutOfGasCheck int
}

func (n *node) Remote() string { return "sim" }

func (n *node) ABCIQueryWithOptions(ctx context.Context, path string, data cmtbytes.HexBytes, opts rpcclient.ABCIQueryOptions) (*coretypes.ResultABCIQuery, error) {
	n.s.park("rpc-query:" + path)
	if n.faults.On && n.ch.Bool("fault.rpc.query", n.faults.QueryErr) {
		n.st.Fault("rpc_query_error")
		return nil, errors.New("injected: rpc error")
	}
	res, err := n.w.Primary().Query(ctx, &abci.RequestQuery{Path: path, Data: data, Height: opts.Height, Prove: opts.Prove})
	if err != nil {
		return nil, err
	}
	if res.Code != 0 && strings.HasSuffix(path, "/Simulate") {
		n.st.Probe("simulate_rejected:" + res.Codespace + fmt.Sprint(res.Code))
		if n.onAdmissionReject != nil {
			n.onAdmissionReject(nil, &abci.ResponseCheckTx{Code: res.Code, Codespace: res.Codespace, Log: "simulate: " + res.Log})
		}
	}
	return &coretypes.ResultABCIQuery{Response: *res}, nil
}

func (n *node) BroadcastTxSync(ctx context.Context, tx cmttypes.Tx) (*coretypes.ResultBroadcastTx, error) {
	n.s.park("rpc-broadcast")
	h := sha256.Sum256(tx)
	hash := strings.ToUpper(hex.EncodeToString(h[:]))
	if n.faults.On && n.ch.Bool("fault.broadcast.err", n.faults.BroadcastErr) {
		n.st.Fault("broadcast_error")
		return nil, errors.New("injected: broadcast failed")
	}
	// real admission check
	res, err := n.w.Primary().CheckTx(&abci.RequestCheckTx{Tx: tx, Type: abci.CheckTxType_New})
	if err != nil {
		return nil, err
	}
	if res.Code != 0 {
		n.st.Probe("checktx_rejected:" + res.Codespace + fmt.Sprint(res.Code))
		if n.onAdmissionReject != nil {
			n.onAdmissionReject(tx, res)
		}
		return &coretypes.ResultBroadcastTx{Code: res.Code, Codespace: res.Codespace, Log: res.Log, Hash: h[:]}, nil
	}
	ti := &txInfo{Hash: hash, Bytes: tx, Broadcast: time.Now(), FeedsAt: map[string]bool{}}
	ti.Signals, ti.UUID = decodeFeederTx(n.w, tx)
	n.s.lg.Add("broadcast %s uuid=%s signals=%v at=%d", hash[:8], ti.UUID, ti.Signals, ti.Broadcast.Unix())
	for _, f := range n.w.Primary().FeedsKeeper.GetCurrentFeeds(n.w.ReadCtx()).Feeds {
		ti.FeedsAt[f.SignalID] = true
	}
	n.mu.Lock()
	n.txs[hash] = ti
	n.order = append(n.order, ti)
	n.mu.Unlock()
	if n.faults.On && n.ch.Bool("fault.tx.lost", n.faults.TxLost) {
		n.st.Fault("tx_lost_after_broadcast")
		ti.Lost = true
	} else {
		n.w.Mempool = append(n.w.Mempool, &world.Intent{RawBytes: tx, Tag: "grogu_tx", Meta: ti})
	}
	return &coretypes.ResultBroadcastTx{Code: 0, Hash: h[:]}, nil
}

func decodeFeederTx(w *world.World, bz []byte) ([]string, string) {
	tx, err := w.Primary().GetTxConfig().TxDecoder()(bz)
	if err != nil {
		return nil, ""
	}
	var sigs []string
	for _, m := range tx.GetMsgs() {
		if ex, ok := m.(*authz.MsgExec); ok {
			inner, _ := ex.GetMessages()
			for _, im := range inner {
				if sp, ok := im.(*feedstypes.MsgSubmitSignalPrices); ok {
					for _, p := range sp.SignalPrices {
						sigs = append(sigs, p.SignalID)
					}
				}
			}
		}
	}
	uuid := ""
	if mt, ok := tx.(sdk.TxWithMemo); ok {
		if i := strings.Index(mt.GetMemo(), "uuid: "); i >= 0 {
			uuid = mt.GetMemo()[i+6:]
		}
	}
	return sigs, uuid
}

func max64(a, b int64) int64 {
	if a > b {
		return a
	}
	return b
}

func decodePrices(w *world.World, bz []byte) []feedstypes.SignalPrice {
	tx, err := w.Primary().GetTxConfig().TxDecoder()(bz)
	if err != nil {
		return nil
	}
	var out []feedstypes.SignalPrice
	for _, m := range tx.GetMsgs() {
		if ex, ok := m.(*authz.MsgExec); ok {
			inner, _ := ex.GetMessages()
			for _, im := range inner {
				if sp, ok := im.(*feedstypes.MsgSubmitSignalPrices); ok {
					out = append(out, sp.SignalPrices...)
				}
			}
		}
	}
	return out
}

type queriers struct {
	s  *sched
	w  *world.World
	n  *node
	qs feedstypes.QueryServer
	st *core.Stats
	ch *core.Chooser
}

func (q *queriers) ctx() context.Context { return q.w.ReadCtx() }
func (q *queriers) fail(kind string) bool {
	if q.n.faults.On && q.ch.Bool("fault.querier."+kind, q.n.faults.QueryErr) {
		q.st.Fault("querier_error")
		return true
	}
	return false
}
func (q *queriers) QueryValidValidator(v sdk.ValAddress) (*feedstypes.QueryValidValidatorResponse, error) {
	q.s.park("q-valid")
	if q.fail("valid") {
		return nil, errors.New("injected")
	}
	return q.qs.ValidValidator(q.ctx(), &feedstypes.QueryValidValidatorRequest{Validator: v.String()})
}
func (q *queriers) QueryValidatorPrices(v sdk.ValAddress) (*feedstypes.QueryValidatorPricesResponse, error) {
	q.s.park("q-valprices")
	if q.fail("valprices") {
		return nil, errors.New("injected")
	}
	return q.qs.ValidatorPrices(q.ctx(), &feedstypes.QueryValidatorPricesRequest{Validator: v.String()})
}
func (q *queriers) QueryParams() (*feedstypes.QueryParamsResponse, error) {
	q.s.park("q-params")
	if q.fail("params") {
		return nil, errors.New("injected")
	}
	return q.qs.Params(q.ctx(), &feedstypes.QueryParamsRequest{})
}
func (q *queriers) QueryCurrentFeeds() (*feedstypes.QueryCurrentFeedsResponse, error) {
	q.s.park("q-feeds")
	if q.fail("feeds") {
		return nil, errors.New("injected")
	}
	r, err := q.qs.CurrentFeeds(q.ctx(), &feedstypes.QueryCurrentFeedsRequest{})
	if err == nil && os.Getenv("VERIF_DAEMON_LOG") != "" {
		fmt.Printf("STUB current feeds: %v\n", r.CurrentFeeds.Feeds)
	}
	return r, err
}
func (q *queriers) QueryAccount(addr sdk.Address) (*authtypes.QueryAccountResponse, error) {
	q.s.park("q-account")
	acc := q.w.Primary().AccountKeeper.GetAccount(q.w.ReadCtx(), sdk.AccAddress(addr.Bytes()))
	if acc == nil {
		return nil, errors.New("account not found")
	}
	a, err := codectypes.NewAnyWithValue(acc)
	if err != nil {
		return nil, err
	}
	return &authtypes.QueryAccountResponse{Account: a}, nil
}
func (q *queriers) QueryTx(hash string) (*sdk.TxResponse, error) {
	q.s.park("q-tx")
	q.n.mu.Lock()
	ti := q.n.txs[strings.ToUpper(hash)]
	q.n.mu.Unlock()
	if ti == nil || !ti.Included {
		return nil, errors.New("tx not found")
	}
	return &sdk.TxResponse{TxHash: ti.Hash, Height: ti.Height, Code: ti.Result.Code, Codespace: ti.Result.Codespace, RawLog: ti.Result.Log}, nil
}

// price service
type priceService struct {
	s      *sched
	mu     sync.Mutex
	price  map[string]uint64
	status map[string]bothan.Status
	calls  int
	base   uint64 // first price of every signal (1e9-scaled prices of very different magnitudes)
	missing map[string]bool
}

func (p *priceService) GetInfo() (*bothan.GetInfoResponse, error) {
	p.s.park("bothan-info")
	return &bothan.GetInfoResponse{MonitoringEnabled: false}, nil
}
func (p *priceService) UpdateRegistry(string, string) error          { return nil }
func (p *priceService) PushMonitoringRecords(string, string) error { return nil }
func (p *priceService) GetPrices(ids []string) (*bothan.GetPricesResponse, error) {
	p.s.park("bothan-prices")
	p.mu.Lock()
	defer p.mu.Unlock()
	p.calls++
	out := &bothan.GetPricesResponse{Uuid: fmt.Sprintf("u%d", p.calls)}
	sorted := append([]string{}, ids...)
	sort.Strings(sorted)
	for _, id := range sorted {
		if p.missing[id] {
			continue
		}
		if _, ok := p.price[id]; !ok {
			p.price[id] = p.base
			p.status[id] = bothan.Status_STATUS_AVAILABLE
		}
		out.Prices = append(out.Prices, &bothan.Price{SignalId: id, Price: p.price[id], Status: p.status[id]})
	}
	d := ""
	for _, x := range out.Prices {
		d += fmt.Sprintf(" %s=%d/%d", x.SignalId, x.Price, x.Status)
	}
	p.s.lg.Add("prices %s asked=%v ->%s", out.Uuid, sorted, d)
	return out, nil
}

// ---------------------------------------------------------------------------------------------

func RunOne(o core.RunOpts) (res *core.RunResult) {
	var ch *core.Chooser
	if o.Tape != nil {
		ch = core.NewReplayer(o.Tape)
	} else {
		ch = core.NewExplorer(o.Seed)
	}
	lg := &core.Log{Keep: o.KeepLog, MaxKeep: 4000}
	st := core.NewStats()
	res = &core.RunResult{Seed: o.Seed, Prop: o.Prop, Stats: st}
	scratch, err := os.MkdirTemp(o.Scratch, "grun")
	if err != nil {
		res.Err = err.Error()
		return res
	}
	defer os.RemoveAll(scratch)
	var viol *core.Violation
	var w *world.World
	fail := func(inv, trig, format string, a ...any) {
		if viol == nil {
			key := "C20/" + inv
			if trig != "" {
				key += "/" + trig
			}
			h := int64(0)
			if w != nil {
				h = w.Height
			}
			viol = &core.Violation{Property: "C20", Invariant: inv, Key: key, Detail: fmt.Sprintf(format, a...), Height: h}
			lg.Add("VIOLATION %s: %s", key, viol.Detail)
		}
	}
	defer func() {
		if r := recover(); r != nil {
			res.Err = fmt.Sprintf("harness panic: %v", r)
		}
		res.Tape = ch.Tape
		res.LogHash = lg.Hash()
		res.LogLines = lg.Lines
		res.TraceHash = st.TraceHash()
		res.Trace = st.TraceSample(60)
		res.Violation = viol
		if w != nil {
			res.Blocks = w.Height
			res.Txs = w.TxCount
			res.SimSeconds = w.SimSeconds
			w.Close()
		}
	}()

	// ---- configuration -------------------------------------------------------------------------
	start := time.Date(2000, 1, 1, 0, 0, 0, 0, time.UTC) // the bubble's clock starts here
	fp := feedstypes.DefaultParams()
	fp.Admin = world.NewAccount(1, "admin").Addr.String()
	fp.MinInterval = int64(30 + ch.Intn("cfg.minint", 30))
	fp.MaxInterval = fp.MinInterval + int64(ch.Intn("cfg.maxint", 90))
	fp.CooldownTime = int64(2 + ch.Intn("cfg.cooldown", int(fp.MinInterval/2-3)))
	fp.GracePeriod = int64(10 + ch.Intn("cfg.grace", 20))
	fp.PowerStepThreshold = 1000
	fp.MaxCurrentFeeds = 6
	fp.CurrentFeedsUpdateInterval = int64(5 + ch.Intn("cfg.updint", 30))
	fp.MinDeviationBasisPoint = int64(10 + ch.Intn("cfg.mindev", 100))
	fp.MaxDeviationBasisPoint = fp.MinDeviationBasisPoint + int64(ch.Intn("cfg.maxdev", 1000))
	fp.AllowableBlockTimeDiscrepancy = 60
	op := oracletypes.DefaultParams()
	op.OracleRewardPercentage = 0
	faults := &faultCfg{}
	if ch.Bool("cfg.faults", 400) {
		faults = &faultCfg{On: true, BroadcastErr: 20 + ch.Intn("cfg.f.bcast", 150), TxLost: ch.Intn("cfg.f.lost", 60), QueryErr: ch.Intn("cfg.f.query", 60)}
	}
	nv := 1 + ch.Intn("cfg.nvals", 3)
	tokens := make([]int64, nv)
	for i := range tokens {
		tokens[i] = 100_000_000
	}
	cfg := world.Config{Seed: o.Seed, ChainID: "simband", ValTokens: tokens, NumUsers: 4, Replicas: 1, GenesisTime: start,
		GenesisMods: []func(*world.World, chainsim.GenesisState){chainsim.QuietEconomy(), chainsim.OracleGenesis(op, []chainsim.DSSpec{{Fee: sdk.NewCoins(), Treasury: world.NewAccount(o.Seed, "t"), Exec: []byte("x")}}),
			chainsim.FeedsGenesis(fp, []string{"uusd"})}}
	w, err = world.New(ch, lg, st, cfg, scratch)
	if err != nil {
		res.Err = "setup: " + err.Error()
		return res
	}
	app := w.Primary()
	app.RegisterTxService(client.Context{})
	me := w.Vals[0]
	// feeder keys (grantees)
	kr := keyring.NewInMemory(app.AppCodec())
	nkeys := 1 + ch.Intn("cfg.nkeys", 2)
	var feeders []sdk.AccAddress
	for i := 0; i < nkeys; i++ {
		mn := []string{"abandon abandon abandon abandon abandon abandon abandon abandon abandon abandon abandon about",
			"legal winner thank year wave sausage worth useful legal winner thank yellow"}[i]
		rec, err := kr.NewAccount(fmt.Sprintf("feeder%d", i), mn, "", sdk.FullFundraiserPath, hd.Secp256k1)
		if err != nil {
			res.Err = "keyring: " + err.Error()
			return res
		}
		a, _ := rec.GetAddress()
		feeders = append(feeders, a)
	}
	intervalParams, intervalParamsDone := ch.Bool("cfg.intervalparams", 350), false
	var blockTime time.Time
	nextBlock := func(t time.Time) *world.BlockRecord {
		blockTime = t
		return w.NextBlock(world.BlockOpts{Time: &t})
	}
	signals := []string{"CS:BTC-USD", "CS:ETH-USD", "CS:BAND-USD", "CS:SOL-USD"}
	// setup blocks (outside the bubble, block times 1s apart): activation, grants, funding, delegation and votes
	setup := func() {
		w.Submit(&world.Intent{Signer: me.Account, Msgs: []sdk.Msg{oracletypes.NewMsgActivate(me.Val)}, Tag: "activate"})
		exp := start.Add(1000 * time.Hour)
		for _, f := range feeders {
			g, _ := authz.NewMsgGrant(me.Addr, f, authz.NewGenericAuthorization(sdk.MsgTypeURL(&feedstypes.MsgSubmitSignalPrices{})), &exp)
			w.Submit(&world.Intent{Signer: me.Account, Msgs: []sdk.Msg{g, banktypes.NewMsgSend(me.Addr, f, sdk.NewCoins(sdk.NewInt64Coin("uband", 1_000_000)))}, Tag: "grant"})
		}
		voter := w.Users[0]
		w.Submit(&world.Intent{Signer: voter, Msgs: []sdk.Msg{stakingtypes.NewMsgDelegate(voter.Addr.String(), me.Val.String(), sdk.NewInt64Coin("uband", 100_000))}, Tag: "delegate"})
	}
	t := start
	nextBlock(t.Add(time.Second))
	setup()
	t = t.Add(2 * time.Second)
	nextBlock(t)
	vote := func(n int) {
		var sg []feedstypes.Signal
		for i := 0; i < n; i++ {
			sg = append(sg, feedstypes.Signal{ID: signals[i], Power: int64(1000 * (1 + ch.Intn("vote.power", 20)))})
		}
		w.Submit(&world.Intent{Signer: w.Users[0], Msgs: []sdk.Msg{feedstypes.NewMsgVote(w.Users[0].Addr.String(), sg)}, Tag: "vote"})
	}
	vote(1 + ch.Intn("cfg.nsignals", 4))
	for i := 0; i < int(fp.CurrentFeedsUpdateInterval)+1; i++ {
		t = t.Add(time.Second)
		nextBlock(t)
	}
	if w.Halt != nil {
		res.Err = "chain halted during setup: " + w.Halt.Err
		return res
	}
	bubbleOffset := t.Sub(start) + time.Second // the bubble must start after the last setup block

	// ---- daemon, inside the bubble -----------------------------------------------------------
	s := &sched{ch: ch, lg: lg}
	nd := &node{s: s, w: w, st: st, ch: ch, faults: faults, txs: map[string]*txInfo{}}
	qr := &queriers{s: s, w: w, n: nd, qs: feedskeeper.NewQueryServer(app.FeedsKeeper), st: st, ch: ch}
	ps := &priceService{s: s, price: map[string]uint64{}, status: map[string]bothan.Status{}, missing: map[string]bool{},
		base: []uint64{1_000_000, 1_000_000, 1_000_000_000_000, 150_000_000_000_000_000, 2_000_000_000_000_000_000}[ch.Intn("cfg.pricescale", 5)]}
	bigPrices := ps.base > 1_000_000_000_000_000
	simMinutes := 6 + ch.Intn("cfg.minutes", 10)
	if o.Thorough {
		simMinutes = 10 + ch.Intn("cfg.minutes", 50)
	}
	faultRun := faults.On
	// timing envelope ("shipped timing configuration"): the newest block's time is never more than the daemon's 3 s buffer
	// behind the wall clock, i.e. (largest block gap) + (largest block-time lag) <= 3 s
	maxGapS := 1 + ch.Intn("cfg.maxgap", 3)
	maxLagMs := ch.Intn("cfg.maxlag", (3-maxGapS)*1000+1)
	withMissing := ch.Bool("cfg.missing", 300)
	signaller.VerifOrderSignalIDs = func(ids []string) {
		sort.Strings(ids)
		if len(ids) > 1 {
			p := ch.Perm("sut.idorder", len(ids))
			cp := append([]string{}, ids...)
			for i, j := range p {
				ids[i] = cp[j]
			}
		}
	}
	defer func() { signaller.VerifOrderSignalIDs = nil }()
	const promptBound = 15 // poll 1 s + idle-key wait (one block + 1 s tx poll) + one block of at most 3 s, with margin
	nd.onAdmissionReject = func(tx []byte, r *abci.ResponseCheckTx) {
		// the node refuses a feeder transaction at admission only when its price message would fail (it is then not fee-exempt).
		// Excused: injected faults, or a feed list that changed in the last 10 s (the daemon may have read the old one).
		why := "other"
		for _, k := range []string{"too early", "not supported", "signal prices too large", "oracle status", "invalid timestamp", "out of gas", "sequence"} {
			if strings.Contains(strings.ToLower(r.Log), k) {
				why = strings.ReplaceAll(k, " ", "_")
				break
			}
		}
		if faultRun {
			st.Probe("admission_reject_in_fault_run:" + why)
			return
		}
		st.Probe("admission_reject_fault_free:" + why)
		if why == "other" && os.Getenv("VERIF_DAEMON_LOG") != "" {
			fmt.Println("OTHER-REJECT", r.Codespace, r.Code, r.Log)
		}
		cf := app.FeedsKeeper.GetCurrentFeeds(w.ReadCtx())
		var sigs []string
		if tx != nil {
			sigs, _ = decodeFeederTx(w, tx)
		}
		if w.Time.Unix()-cf.LastUpdateTimestamp <= 10 {
			return
		}
		if !app.OracleKeeper.GetValidatorStatus(w.ReadCtx(), me.Val).IsActive {
			return
		}
		fail("submission_rejected_at_admission", fmt.Sprintf("%s%d", r.Codespace, r.Code), "a price submission of the daemon (signals %v, wall clock %d, newest block time %d) was refused by the node's admission check: %s",
			sigs, time.Now().Unix(), w.Time.Unix(), r.Log)
	}
	lastAccepted := map[string]int64{} // signal -> block time of the last accepted submission
	excused := map[string]bool{}       // the price service withheld the signal: nothing is owed until it is accepted again
	dueSince := map[string]int64{}     // since when the signal has continuously been "changed status or deviated"
	nAccepted, nRejected, nFailedSub, nPromptObl, nIntervalObl := 0, 0, 0, 0, 0
	var pendingAtEnd []string
	missingLeft := map[string]int{}
	vps := map[string]feedstypes.ValidatorPrice{}
	deactivated := false
	stuck := ""
	func() {
		defer func() {
			if r := recover(); r != nil {
				stuck = fmt.Sprint(r)
			}
		}()
		synctest.Test(o.T, func(tt *testing.T) {
			time.Sleep(bubbleOffset)
			submitCh := make(chan submitter.SignalPriceSubmission, 300)
			pending := &sync.Map{}
			l := logger.NewLogger(log.FilterFunc(func(_, _ string) bool { return os.Getenv("VERIF_DAEMON_LOG") == "" }))
			cctx := client.Context{}.WithKeyring(kr).WithChainID(cfg.ChainID).WithCodec(app.AppCodec()).WithInterfaceRegistry(app.InterfaceRegistry()).
				WithTxConfig(app.GetTxConfig()).WithBroadcastMode("sync").WithClient(nd)
			sig := signaller.New(qr, ps, time.Second, submitCh, l, me.Val, pending, 50, 30)
			sub, err := submitter.New(cctx, []rpcclient.RemoteClient{nd}, ps, l, submitCh, qr, qr, me.Val, pending, time.Minute, 5, time.Second, "0uband")
			if err != nil {
				panic(err)
			}
			go sig.Start()
			go sub.Start()
			end := time.Now().Add(time.Duration(simMinutes) * time.Minute)
			drainEnd := end.Add(2 * time.Minute)
			nextAt := time.Now().Add(time.Second)
			draining := false
			settleEnd := drainEnd.Add(90 * time.Second)
			var stuckSet map[string]bool
			for time.Now().Before(settleEnd) && viol == nil {
				synctest.Wait()
				if s.releaseOne() {
					continue
				}
				now := time.Now()
				if !now.Before(drainEnd) {
					// settle: every signal marked in flight at the end of the drain must be seen released at some quiescent instant
					if stuckSet == nil {
						stuckSet = map[string]bool{}
						pending.Range(func(k, _ any) bool { stuckSet[k.(string)] = true; return true })
					} else {
						for _, k := range core.SortedKeys(stuckSet) {
							if _, ok := pending.Load(k); !ok {
								delete(stuckSet, k)
							}
						}
					}
					if len(stuckSet) == 0 {
						break
					}
				}
				if !draining && !now.Before(end) {
					draining = true
					faults.On = false
					lg.Add("drain phase begins")
				}
				if now.Before(nextAt) {
					d := nextAt.Sub(now)
					if d > 250*time.Millisecond {
						d = 250 * time.Millisecond
					}
					time.Sleep(d)
					continue
				}
				// ---- the world moves: prices, statuses, votes ----------------------------------------
				if !draining {
					ps.mu.Lock()
					cf := app.FeedsKeeper.GetCurrentFeeds(w.ReadCtx())
					for _, f := range cf.Feeds {
						id := f.SignalID
						p := ps.price[id]
						if p == 0 {
							continue
						}
						if ps.missing[id] {
							if missingLeft[id]--; missingLeft[id] <= 0 {
								ps.missing[id] = false
							}
							continue
						}
						switch ch.Weighted("price.move", []int{88, 4, 4, 2, 2}) {
						case 1:
							if p < 1<<63 {
								ps.price[id] = p + p/200 // 50 bp
							}
						case 2:
							// aim at the feed's deviation threshold: exactly, one below, one above
							dev := feedstypes.CalculateDeviation(f.Power, fp.PowerStepThreshold, fp.MinDeviationBasisPoint, fp.MaxDeviationBasisPoint)
							bps := dev + int64(ch.Intn("price.aim", 3)) - 1
							base := p
							if vp, ok := vps[id]; ok && vp.Price > 10000 {
								base = vp.Price // aim relative to the validator's on-chain price: that is what the daemon compares with
							}
							// smallest move of at least bps basis points (128-bit product: prices go up to 2e18)
							d := new(big.Int).Div(new(big.Int).Add(new(big.Int).Mul(new(big.Int).SetUint64(base), big.NewInt(bps)), big.NewInt(9999)), big.NewInt(10000)).Uint64()
							if base > 1<<62 && !ch.Bool("price.down", 500) {
								d = 0 // no room above
							}
							if ch.Bool("price.down", 500) {
								ps.price[id] = base - d
							} else {
								ps.price[id] = base + d
							}
							st.Fault("price_aimed_at_deviation_threshold")
						case 3:
							others := []bothan.Status{}
							for _, x := range []bothan.Status{bothan.Status_STATUS_AVAILABLE, bothan.Status_STATUS_UNAVAILABLE, bothan.Status_STATUS_UNSUPPORTED} {
								if x != ps.status[id] {
									others = append(others, x)
								}
							}
							ps.status[id] = others[ch.Intn("price.status", 2)]
							st.Fault("price_status_flip")
						case 4:
							if withMissing && !ps.missing[id] {
								ps.missing[id] = true
								missingLeft[id] = 1 + ch.Intn("price.missing.blocks", 8)
								st.Fault("price_service_withholds_signal")
							}
						}
					}
					ps.mu.Unlock()
					if ch.Bool("world.revote", 15) {
						vote(1 + ch.Intn("revote.n", 4))
						st.Fault("feed_list_change_by_vote")
					}
					if intervalParams && !intervalParamsDone && ch.Bool("world.intervalparams", 25) {
						// governance lengthens the interval range: the intervals of the CURRENT feed list stay as they are until the
						// list is recomputed, and those are the ones the chain holds the validator to
						np := app.FeedsKeeper.GetParams(w.ReadCtx())
						if ch.Bool("world.intervalparams.max", 600) {
							np.MaxInterval *= int64(2 + ch.Intn("world.intervalparams.f", 3))
						} else {
							np.MinInterval *= int64(2 + ch.Intn("world.intervalparams.f", 3))
							if np.MaxInterval < np.MinInterval {
								np.MaxInterval = np.MinInterval
							}
						}
						if np.Validate() == nil {
							if err := w.ApplyInterOp(func(a *band.BandApp, ctx sdk.Context) error { return a.FeedsKeeper.SetParams(ctx, np) }); err == nil {
								intervalParamsDone = true
								st.Fault("feed_interval_parameters_lengthened_by_governance")
							}
						}
					}
				}
				// ---- produce a block at the fake time ------------------------------------------------
				// block time lags the wall clock by up to maxLag (in a real chain it is the median of the previous round's vote times)
				btime := now.Add(-time.Duration(ch.Intn("block.lag", maxLagMs+1)) * time.Millisecond)
				if !btime.After(w.Time) {
					btime = w.Time.Add(time.Millisecond)
				}
				blk := nextBlock(btime)
				nextAt = now.Add(time.Duration(1+ch.Intn("block.gap", maxGapS)) * time.Second)
				if w.Halt != nil {
					if a := chainsim.AnchoredIn("C20", w.Halt.Stack); a != "" {
						fail("halt_in_anchored_code", "", "block execution panicked inside %s: %s", a, w.Halt.Err)
					} else if viol == nil {
						// block execution died elsewhere: that is C02's violation, and this check is inconclusive
						viol = &core.Violation{Property: "C02", Invariant: "halt", Key: "C02/halt", Detail: w.Halt.Phase + ": " + w.Halt.Err, Height: w.Height}
						lg.Add("VIOLATION C02/halt: %s", w.Halt.Err)
					}
					break
				}
				bt := blk.Header.Time.Unix()
				prevVps := vps
				cfNow := app.FeedsKeeper.GetCurrentFeeds(w.ReadCtx())
				cur := map[string]feedstypes.Feed{}
				for _, f := range cfNow.Feeds {
					cur[f.SignalID] = f
				}
				for _, tx := range blk.Txs {
					ti, ok := tx.Intent.Meta.(*txInfo)
					if !ok {
						continue
					}
					ti.Included, ti.Result, ti.Height = true, tx.Result, blk.Height
					if tx.OK() {
						nAccepted++
						for _, sgn := range ti.Signals {
							lastAccepted[sgn] = bt
							delete(dueSince, sgn)
							ps.mu.Lock()
							if !ps.missing[sgn] {
								delete(excused, sgn)
							}
							ps.mu.Unlock()
						}
						// why was each price sent? (judged against the validator's on-chain price before this block)
						why := ""
						msgPrices := decodePrices(w, ti.Bytes)
						for _, mp := range msgPrices {
							old, had := prevVps[mp.SignalID]
							f := cur[mp.SignalID]
							switch {
							case !had:
								why += "N"
							case old.SignalPriceStatus != mp.Status:
								why += "S"
							case bt-old.Timestamp >= f.Interval/2:
								why += fmt.Sprintf("I%d", (bt-old.Timestamp)*10/max64(f.Interval, 1))
							default:
								why += "D"
							}
						}
						st.Trace("accepted:" + why)
						continue
					}
					nRejected++
					// a rejection the daemon could have foreseen is a violation unless the feed list changed under it
					changed := false
					for _, sgn := range ti.Signals {
						if _, ok := cur[sgn]; !ok && ti.FeedsAt[sgn] {
							changed = true
						}
					}
					if tx.Result.Codespace == feedstypes.ModuleName && !changed && !faultRun {
						fail("submission_rejected_by_chain", fmt.Sprintf("%s%d", tx.Result.Codespace, tx.Result.Code), "a price submission of the daemon (signals %v, broadcast at %d, included at %d) was rejected by the feeds module: %s",
							ti.Signals, ti.Broadcast.Unix(), bt, tx.Result.Log)
					}
					st.Trace("rejected:" + tx.Result.Codespace + fmt.Sprint(tx.Result.Code))
				}
				// two transactions carrying the same signal must never be in flight together
				nd.mu.Lock()
				inflight := map[string]string{}
				for _, ti := range nd.order {
					if ti.Included || ti.Lost {
						continue
					}
					for _, sgn := range ti.Signals {
						if other, ok := inflight[sgn]; ok && other != ti.UUID {
							fail("same_signal_in_flight_twice", "", "signal %s is carried by two pending submissions (%s and %s)", sgn, other, ti.UUID)
						}
						inflight[sgn] = ti.UUID
					}
				}
				nd.mu.Unlock()
				ps.mu.Lock()
				for id := range cur {
					if ps.missing[id] {
						excused[id] = true
					}
				}
				ps.mu.Unlock()
				active := app.OracleKeeper.GetValidatorStatus(w.ReadCtx(), me.Val).IsActive
				if !active {
					deactivated = true
				}
				vps = map[string]feedstypes.ValidatorPrice{}
				if vl, err := app.FeedsKeeper.GetValidatorPriceList(w.ReadCtx(), me.Val); err == nil {
					for _, v := range vl.ValidatorPrices {
						if v.SignalPriceStatus != feedstypes.SIGNAL_PRICE_STATUS_UNSPECIFIED {
							vps[v.SignalID] = v
						}
					}
				}
				for id := range dueSince {
					if _, ok := cur[id]; !ok {
						delete(dueSince, id)
					}
				}
				if !faultRun {
					// every current signal is refreshed before its interval (or, for a new or re-timed list, the grace period) runs out
					for _, id := range core.SortedKeys(cur) {
						f := cur[id]
						if excused[id] {
							continue
						}
						ref := cfNow.LastUpdateTimestamp + fp.GracePeriod
						if vp, ok := vps[id]; ok {
							// the chain's record of the last accepted submission; it must agree with what this harness saw accepted
							if la, ok2 := lastAccepted[id]; ok2 && la != vp.Timestamp {
								fail("accepted_submission_misrecorded", "", "signal %s: the chain records its last accepted price submission at %d, but the submission accepted for this signal was at %d", id, vp.Timestamp, la)
							}
							if vp.Timestamp+f.Interval > ref {
								ref = vp.Timestamp + f.Interval
							}
						}
						nIntervalObl++
						if bt > ref {
							fail("interval_exceeded", "", "signal %s: last accepted submission at %d, interval %d, feed list updated at %d, grace %d, now %d", id, vps[id].Timestamp, f.Interval, cfNow.LastUpdateTimestamp, fp.GracePeriod, bt)
						}
					}
					if !active && len(excused) == 0 {
						fail("validator_deactivated", "", "the daemon's validator was deactivated for missing a price at height %d (block time %d)", blk.Height, bt)
					}
					// a status change to available, or a move of at least the deviation, is submitted promptly once the cooldown allows
					ps.mu.Lock()
					for _, id := range core.SortedKeys(cur) {
						f := cur[id]
						vp, have := vps[id]
						// an unavailable price is deliberately held back until close to the deadline: nothing prompt is owed for it
						if !have || excused[id] || ps.missing[id] || ps.status[id] == bothan.Status_STATUS_UNAVAILABLE {
							delete(dueSince, id)
							continue
						}
						dev := feedstypes.CalculateDeviation(f.Power, fp.PowerStepThreshold, fp.MinDeviationBasisPoint, fp.MaxDeviationBasisPoint)
						np, op := ps.price[id], vp.Price
						nst := feedstypes.SIGNAL_PRICE_STATUS_AVAILABLE
						if ps.status[id] == bothan.Status_STATUS_UNSUPPORTED {
							nst, np = feedstypes.SIGNAL_PRICE_STATUS_UNSUPPORTED, 0
						}
						diff := np - op
						if op > np {
							diff = op - np
						}
						devNow := int64(0)
						if op != 0 {
							devNow = new(big.Int).Div(new(big.Int).Mul(new(big.Int).SetUint64(diff), big.NewInt(10000)), new(big.Int).SetUint64(op)).Int64()
						}
						margin := int64(0)
						if bigPrices {
							margin = 1 // the daemon compares in float64: within one basis point of the threshold nothing is demanded for such magnitudes
						}
						due := vp.SignalPriceStatus != nst || (op == 0 && np != 0) || (op != 0 && devNow >= dev+margin)
						if !due {
							delete(dueSince, id)
							continue
						}
						if _, ok := dueSince[id]; !ok {
							dueSince[id] = bt
						}
						from := dueSince[id]
						if c := vp.Timestamp + fp.CooldownTime + 3; c > from {
							from = c
						}
						nPromptObl++
						if bt-from > promptBound {
							fail("change_not_submitted_promptly", "", "signal %s has differed from the validator's on-chain price (%d, status %d) by status or at least %d bp since %d (price service: %d), cooldown+buffer ended at %d, and at %d no submission has been accepted",
								id, op, vp.SignalPriceStatus, dev, dueSince[id], np, vp.Timestamp+fp.CooldownTime+3, bt)
						}
					}
					ps.mu.Unlock()
				}
				if !active {
					break // a deactivated validator's daemon idles; nothing more to observe
				}
			}
			if viol == nil && !deactivated {
				pendingAtEnd = core.SortedKeys(stuckSet)
			}
			// park every further call forever so that the goroutines end up durably blocked
			s.mu.Lock()
			s.frozen = true
			s.mu.Unlock()
		})
	}()
	_ = stuck // the daemon's loops never return: the end-of-bubble deadlock report is expected
	nd.mu.Lock()
	for _, ti := range nd.order {
		if ti.Lost || (ti.Included && ti.Result.Code != 0) {
			nFailedSub++
		}
	}
	nd.mu.Unlock()
	if len(pendingAtEnd) > 0 && viol == nil {
		fail("pending_not_released", "", "signals %v were marked in flight 2 simulated minutes after the last fault and stayed so for 90 more seconds", pendingAtEnd)
	}
	_ = blockTime
	st.ProbeN("c20_interval_obligations_checked", nIntervalObl)
	st.ProbeN("c20_promptness_obligations_checked", nPromptObl)
	st.ProbeN("c20_submissions_accepted", nAccepted)
	st.ProbeN("c20_submissions_rejected", nRejected)
	st.ProbeN("c20_failed_or_lost_submissions", nFailedSub)
	st.ProbeN("c20_scheduler_choices", s.choices)
	if deactivated {
		st.Probe("c20_validator_deactivated_in_fault_config")
	}
	st.Covered(fmt.Sprintf("c20.faults=%v.missing=%v.keys%d.accepted>0=%v", faultRun, withMissing, nkeys, nAccepted > 0))
	res.NonTrivial = nAccepted >= 5 && s.choices > 10 && (!faultRun || nFailedSub > 0)
	res.Config = []string{fmt.Sprintf("validators=%d feeder keys=%d faults=%v interval=[%d,%d] cooldown=%d grace=%d update_every=%d deviation=[%d,%d] simulated minutes=%d",
		nv, nkeys, faultRun, fp.MinInterval, fp.MaxInterval, fp.CooldownTime, fp.GracePeriod, fp.CurrentFeedsUpdateInterval, fp.MinDeviationBasisPoint, fp.MaxDeviationBasisPoint, simMinutes)}
	return res
}
