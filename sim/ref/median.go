package ref

import (
	"math/big"
	"sort"
)

// PriceEntry is one fresh AVAILABLE validator price.
type PriceEntry struct {
	Price uint64
	Power *big.Int
	Time  int64
}

// weights assigns to each entry (in the given order) its weight: the integral of the multiplier over the entry's span of
// cumulative power. Exact integers: power is scaled by 32 and the multipliers by 10.
//   first 1/32 of total: x6 ; next 1/16: x4 ; next 1/8: x2 ; next 1/4: x1.1 ; rest: x1
func weights(entries []PriceEntry) []*big.Int {
	total := new(big.Int)
	for _, e := range entries {
		total.Add(total, e.Power)
	}
	// segment upper bounds in units of total/32: 1, 3, 7, 15, 32
	bounds := []int64{1, 3, 7, 15, 32}
	mult := []int64{60, 40, 20, 11, 10}
	out := make([]*big.Int, len(entries))
	cum := new(big.Int) // in 32-scaled units
	for i, e := range entries {
		left := new(big.Int).Mul(e.Power, big.NewInt(32))
		w := new(big.Int)
		for s := 0; s < len(bounds) && left.Sign() > 0; s++ {
			limit := new(big.Int).Mul(total, big.NewInt(bounds[s]))
			if cum.Cmp(limit) >= 0 {
				continue
			}
			room := new(big.Int).Sub(limit, cum)
			take := new(big.Int).Set(left)
			if take.Cmp(room) > 0 {
				take.Set(room)
			}
			w.Add(w, new(big.Int).Mul(take, big.NewInt(mult[s])))
			cum.Add(cum, take)
			left.Sub(left, take)
		}
		out[i] = w
	}
	return out
}

// weightedMedian: smallest price at which the cumulative weight (by increasing price) reaches half of the total.
func weightedMedian(entries []PriceEntry, w []*big.Int) uint64 {
	idx := make([]int, len(entries))
	for i := range idx {
		idx[i] = i
	}
	sort.SliceStable(idx, func(a, b int) bool { return entries[idx[a]].Price < entries[idx[b]].Price })
	total := new(big.Int)
	for _, x := range w {
		total.Add(total, x)
	}
	cum := new(big.Int)
	for _, i := range idx {
		cum.Add(cum, w[i])
		if new(big.Int).Lsh(cum, 1).Cmp(total) >= 0 {
			return entries[i].Price
		}
	}
	return 0
}

// Medians returns every median that is legal under the ordering rule "latest first, larger power first"; entries tied
// in both timestamp and power may be ordered either way, so all permutations of tie groups (up to a bound) are tried.
// ok=false means a tie group was too large to enumerate (caller falls back to a range check).
func Medians(entries []PriceEntry) (out map[uint64]bool, ok bool) {
	es := append([]PriceEntry{}, entries...)
	sort.SliceStable(es, func(a, b int) bool {
		if es[a].Time != es[b].Time {
			return es[a].Time > es[b].Time
		}
		return es[a].Power.Cmp(es[b].Power) > 0
	})
	// tie groups
	var groups [][2]int
	for i := 0; i < len(es); {
		j := i
		for j < len(es) && es[j].Time == es[i].Time && es[j].Power.Cmp(es[i].Power) == 0 {
			j++
		}
		if j-i > 1 {
			groups = append(groups, [2]int{i, j})
		}
		i = j
	}
	out = map[uint64]bool{}
	count := 1
	for _, g := range groups {
		n := g[1] - g[0]
		f := 1
		for k := 2; k <= n; k++ {
			f *= k
		}
		count *= f
		if count > 5040 {
			return nil, false
		}
	}
	var rec func(gi int)
	rec = func(gi int) {
		if gi == len(groups) {
			out[weightedMedian(es, weights(es))] = true
			return
		}
		g := groups[gi]
		permute(es[g[0]:g[1]], 0, func() { rec(gi + 1) })
	}
	rec(0)
	return out, true
}

func permute(a []PriceEntry, k int, f func()) {
	if k == len(a) {
		f()
		return
	}
	for i := k; i < len(a); i++ {
		a[k], a[i] = a[i], a[k]
		permute(a, k+1, f)
		a[k], a[i] = a[i], a[k]
	}
}

// WeightedMedianOf exposes the plain weighted median (smallest price whose cumulative weight reaches half of the total).
func WeightedMedianOf(prices []uint64, w []*big.Int) uint64 {
	es := make([]PriceEntry, len(prices))
	for i, p := range prices {
		es[i] = PriceEntry{Price: p}
	}
	return weightedMedian(es, w)
}
