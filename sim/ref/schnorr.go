// Package ref holds reference implementations written from the specifications (not from the
// repository's code) that the monitors use as oracles.
package ref

import (
	"bytes"
	"errors"
	"math/big"

	"github.com/ethereum/go-ethereum/crypto"
	"github.com/ethereum/go-ethereum/crypto/secp256k1"
)

var curve = secp256k1.S256()
var N = curve.Params().N

const tssContext = "BAND-TSS-secp256k1-v0"

type Pt struct{ X, Y *big.Int }

func (p Pt) IsInf() bool { return p.X == nil || (p.X.Sign() == 0 && p.Y.Sign() == 0) }

func Decompress(b []byte) (Pt, error) {
	if len(b) != 33 || (b[0] != 2 && b[0] != 3) {
		return Pt{}, errors.New("bad compressed point")
	}
	x := new(big.Int).SetBytes(b[1:])
	p := curve.Params().P
	if x.Cmp(p) >= 0 {
		return Pt{}, errors.New("x out of range")
	}
	// y^2 = x^3 + 7
	y2 := new(big.Int).Exp(x, big.NewInt(3), p)
	y2.Add(y2, big.NewInt(7)).Mod(y2, p)
	y := new(big.Int).ModSqrt(y2, p)
	if y == nil {
		return Pt{}, errors.New("not on curve")
	}
	if y.Bit(0) != uint(b[0]&1) {
		y.Sub(p, y)
	}
	return Pt{x, y}, nil
}

func Compress(p Pt) []byte {
	out := make([]byte, 33)
	out[0] = 2 + byte(p.Y.Bit(0))
	p.X.FillBytes(out[1:])
	return out
}

func Add(a, b Pt) Pt {
	if a.IsInf() {
		return b
	}
	if b.IsInf() {
		return a
	}
	if a.X.Cmp(b.X) == 0 {
		if a.Y.Cmp(b.Y) == 0 {
			x, y := curve.Double(a.X, a.Y)
			return Pt{x, y}
		}
		return Pt{} // inverse points
	}
	x, y := curve.Add(a.X, a.Y, b.X, b.Y)
	return Pt{x, y}
}

func Mul(p Pt, k *big.Int) Pt {
	k = new(big.Int).Mod(k, N)
	if k.Sign() == 0 || p.IsInf() {
		return Pt{}
	}
	x, y := curve.ScalarMult(p.X, p.Y, k.Bytes())
	return Pt{x, y}
}

func BaseMul(k *big.Int) Pt {
	k = new(big.Int).Mod(k, N)
	if k.Sign() == 0 {
		return Pt{}
	}
	x, y := curve.ScalarBaseMult(k.Bytes())
	return Pt{x, y}
}

func Equal(a, b Pt) bool {
	if a.IsInf() || b.IsInf() {
		return a.IsInf() && b.IsInf()
	}
	return a.X.Cmp(b.X) == 0 && a.Y.Cmp(b.Y) == 0
}

// AddressOf is the last 20 bytes of keccak(X32 || Y32).
func AddressOf(p Pt) []byte {
	buf := make([]byte, 64)
	p.X.FillBytes(buf[:32])
	p.Y.FillBytes(buf[32:])
	return crypto.Keccak256(buf)[12:]
}

// Challenge is the BAND-TSS challenge: keccak(ctx, 0, "challenge", 0, address(R), parity+25, Px, keccak(msg)).
func Challenge(groupNonce, groupKey []byte, msg []byte) (*big.Int, error) {
	R, err := Decompress(groupNonce)
	if err != nil {
		return nil, err
	}
	P, err := Decompress(groupKey)
	if err != nil {
		return nil, err
	}
	px := make([]byte, 32)
	P.X.FillBytes(px)
	h := crypto.Keccak256([]byte(tssContext), []byte{0}, []byte("challenge"), []byte{0}, AddressOf(R), []byte{groupKey[0] + 25}, px, crypto.Keccak256(msg))
	return new(big.Int).SetBytes(h), nil
}

// VerifyGroupSignature checks s*G == R + c*P for sig = R(33) || s(32).
func VerifyGroupSignature(groupKey, msg, sig []byte) error {
	if len(sig) != 65 {
		return errors.New("signature length")
	}
	R, err := Decompress(sig[:33])
	if err != nil {
		return err
	}
	P, err := Decompress(groupKey)
	if err != nil {
		return err
	}
	c, err := Challenge(sig[:33], groupKey, msg)
	if err != nil {
		return err
	}
	s := new(big.Int).SetBytes(sig[33:])
	if s.Cmp(N) >= 0 {
		return errors.New("s out of range")
	}
	if !Equal(BaseMul(s), Add(R, Mul(P, c))) {
		return errors.New("s*G != R + c*P")
	}
	return nil
}

// Lagrange returns prod_{j != i} j/(j-i) mod n.
func Lagrange(i uint64, ids []uint64) *big.Int {
	num, den := big.NewInt(1), big.NewInt(1)
	for _, j := range ids {
		if j == i {
			continue
		}
		num.Mul(num, new(big.Int).SetUint64(j)).Mod(num, N)
		d := new(big.Int).Sub(new(big.Int).SetUint64(j), new(big.Int).SetUint64(i))
		den.Mul(den, d.Mod(d, N)).Mod(den, N)
	}
	return num.Mul(num, new(big.Int).ModInverse(den, N)).Mod(num, N)
}

// VerifyPartial checks z*G == R_i + c*lambda_i*Y_i.
func VerifyPartial(groupNonce, groupKey, msg []byte, memberID uint64, committee []uint64, memberNonce, memberKey, sig []byte) error {
	if len(sig) != 65 {
		return errors.New("signature length")
	}
	if !bytes.Equal(sig[:33], memberNonce) {
		return errors.New("R is not the member's assigned public nonce")
	}
	Ri, err := Decompress(memberNonce)
	if err != nil {
		return err
	}
	Yi, err := Decompress(memberKey)
	if err != nil {
		return err
	}
	c, err := Challenge(groupNonce, groupKey, msg)
	if err != nil {
		return err
	}
	c.Mul(c, Lagrange(memberID, committee)).Mod(c, N)
	z := new(big.Int).SetBytes(sig[33:])
	if !Equal(BaseMul(z), Add(Ri, Mul(Yi, c))) {
		return errors.New("z*G != R_i + c*lambda*Y_i")
	}
	return nil
}

// EvalCommits evaluates sum_k C_k * x^k.
func EvalCommits(commits [][]byte, x uint64) (Pt, error) {
	acc := Pt{}
	xp := big.NewInt(1)
	bx := new(big.Int).SetUint64(x)
	for _, cb := range commits {
		c, err := Decompress(cb)
		if err != nil {
			return Pt{}, err
		}
		acc = Add(acc, Mul(c, xp))
		xp = new(big.Int).Mul(xp, bx)
		xp.Mod(xp, N)
	}
	return acc, nil
}

func SumPoints(ps [][]byte) (Pt, error) {
	acc := Pt{}
	for _, b := range ps {
		p, err := Decompress(b)
		if err != nil {
			return Pt{}, err
		}
		acc = Add(acc, p)
	}
	return acc, nil
}
