package ref

import (
	"crypto/hmac"
	"crypto/sha256"
	"encoding/binary"
	"sort"
)

// HMACDRBG is HMAC_DRBG with SHA-256 as specified in NIST SP 800-90A rev.1 section 10.1.2
// (no prediction resistance, no additional input).
type HMACDRBG struct{ k, v []byte }

func mac(k []byte, parts ...[]byte) []byte {
	h := hmac.New(sha256.New, k)
	for _, p := range parts {
		h.Write(p)
	}
	return h.Sum(nil)
}

func (d *HMACDRBG) update(provided []byte) {
	d.k = mac(d.k, d.v, []byte{0x00}, provided)
	d.v = mac(d.k, d.v)
	if len(provided) == 0 {
		return
	}
	d.k = mac(d.k, d.v, []byte{0x01}, provided)
	d.v = mac(d.k, d.v)
}

// NewHMACDRBG instantiates with seed material entropy || nonce || personalization.
func NewHMACDRBG(entropy, nonce, personalization []byte) *HMACDRBG {
	d := &HMACDRBG{k: make([]byte, 32), v: make([]byte, 32)}
	for i := range d.v {
		d.v[i] = 1
	}
	seed := append(append(append([]byte{}, entropy...), nonce...), personalization...)
	d.update(seed)
	return d
}

func (d *HMACDRBG) Generate(n int) []byte {
	var out []byte
	for len(out) < n {
		d.v = mac(d.k, d.v)
		out = append(out, d.v...)
	}
	d.update(nil)
	return out[:n]
}

// NextUint64 is one 8-byte generate request, big endian.
func (d *HMACDRBG) NextUint64() uint64 { return binary.BigEndian.Uint64(d.Generate(8)) }

// ---------------------------------------------------------------------------------------------
// Sampling specification

// chooseOne: cumulative-weight pick: the first index whose cumulative weight exceeds r mod total.
func chooseOne(d *HMACDRBG, w []uint64) int {
	var total uint64
	for _, x := range w {
		total += x
	}
	lucky := d.NextUint64() % total
	var cum uint64
	for i, x := range w {
		cum += x
		if cum > lucky {
			return i
		}
	}
	panic("unreachable")
}

// chooseSome picks cnt distinct indices without replacement.
func chooseSome(d *HMACDRBG, weights []uint64, cnt int) []int {
	type item struct {
		idx int
		w   uint64
	}
	var pool []item
	for i, w := range weights {
		pool = append(pool, item{i, w})
	}
	var out []int
	for r := 0; r < cnt; r++ {
		ws := make([]uint64, len(pool))
		for i, it := range pool {
			ws[i] = it.w
		}
		c := chooseOne(d, ws)
		out = append(out, pool[c].idx)
		pool = append(pool[:c:c], pool[c+1:]...)
	}
	return out
}

// ChooseBestOfN repeats chooseSome `tries` times and keeps the first candidate with the largest total weight.
func ChooseBestOfN(d *HMACDRBG, weights []uint64, cnt, tries int) []int {
	var best []int
	var bestSum uint64
	for t := 0; t < tries; t++ {
		cand := chooseSome(d, weights, cnt)
		var sum uint64
		for _, i := range cand {
			sum += weights[i]
		}
		if sum > bestSum {
			best, bestSum = cand, sum
		}
	}
	return best
}

// ChooseSigners is the partial Fisher-Yates pick of `threshold` out of the eligible ids (given in
// ascending id order), returned sorted by id.
func ChooseSigners(d *HMACDRBG, eligible []uint64, threshold int) []uint64 {
	n := len(eligible)
	idx := make([]int, n)
	for i := range idx {
		idx[i] = i
	}
	var out []uint64
	for i := 0; i < threshold; i++ {
		r := int(d.NextUint64() % uint64(n-i))
		out = append(out, eligible[idx[r]])
		idx[r] = idx[n-i-1]
	}
	sort.Slice(out, func(a, b int) bool { return out[a] < out[b] })
	return out
}
