package ref

import (
	"bytes"
	"encoding/binary"
	"errors"
	"fmt"
	"math/big"
	"strings"

	"github.com/ethereum/go-ethereum/accounts/abi"
	"github.com/ethereum/go-ethereum/crypto"
)

// Tag is the first four bytes of keccak256(name).
func Tag(name string) []byte { return crypto.Keccak256([]byte(name))[:4] }

func be8(x uint64) []byte {
	b := make([]byte, 8)
	binary.BigEndian.PutUint64(b, x)
	return b
}

// DirectOriginatorHash = keccak( tag("DirectOriginator") | keccak(chain) | keccak(requester) | keccak(memo) ).
func DirectOriginatorHash(chainID, requester, memo string) []byte {
	enc := bytes.Join([][]byte{Tag("DirectOriginator"), crypto.Keccak256([]byte(chainID)), crypto.Keccak256([]byte(requester)), crypto.Keccak256([]byte(memo))}, nil)
	return crypto.Keccak256(enc)
}

// TunnelOriginatorHash = keccak( tag("TunnelOriginator") | keccak(chain) | be64(tunnel) | keccak(dstChain) | keccak(dstContract) ).
func TunnelOriginatorHash(chainID string, tunnelID uint64, dstChain, dstContract string) []byte {
	enc := bytes.Join([][]byte{Tag("TunnelOriginator"), crypto.Keccak256([]byte(chainID)), be8(tunnelID), crypto.Keccak256([]byte(dstChain)), crypto.Keccak256([]byte(dstContract))}, nil)
	return crypto.Keccak256(enc)
}

// SignedMessage is the split of the bytes a group signs.
type SignedMessage struct {
	OriginatorHash []byte
	Time           uint64
	ID             uint64
	Route          []byte // 4-byte selector of the module route that produced the content
	Tag            []byte // 4-byte tag of the content kind / encoder
	Body           []byte
}

func SplitMessage(msg []byte) (SignedMessage, error) {
	if len(msg) < 32+8+8+4+4 {
		return SignedMessage{}, errors.New("message shorter than header")
	}
	return SignedMessage{OriginatorHash: msg[:32], Time: binary.BigEndian.Uint64(msg[32:40]), ID: binary.BigEndian.Uint64(msg[40:48]), Route: msg[48:52], Tag: msg[52:56], Body: msg[56:]}, nil
}

// ---- ABI decoders (own argument definitions) -------------------------------------------------

func mustType(t string, comps []abi.ArgumentMarshaling) abi.Type {
	ty, err := abi.NewType(t, "", comps)
	if err != nil {
		panic(err)
	}
	return ty
}

var (
	priceTuple = []abi.ArgumentMarshaling{{Name: "signalID", Type: "bytes32"}, {Name: "price", Type: "uint64"}}
	feedsArgs  = abi.Arguments{{Name: "prices", Type: mustType("tuple[]", priceTuple)}, {Name: "timestamp", Type: mustType("int64", nil)}}
	packetArgs = abi.Arguments{{Name: "packet", Type: mustType("tuple", []abi.ArgumentMarshaling{
		{Name: "sequence", Type: "uint64"}, {Name: "relayPrices", Type: "tuple[]", Components: priceTuple}, {Name: "createdAt", Type: "int64"}})}}
	fullResultArgs = abi.Arguments{{Name: "result", Type: mustType("tuple", []abi.ArgumentMarshaling{
		{Name: "clientID", Type: "string"}, {Name: "oracleScriptID", Type: "uint64"}, {Name: "calldata", Type: "bytes"}, {Name: "askCount", Type: "uint64"},
		{Name: "minCount", Type: "uint64"}, {Name: "requestID", Type: "uint64"}, {Name: "ansCount", Type: "uint64"}, {Name: "requestTime", Type: "int64"},
		{Name: "resolveTime", Type: "int64"}, {Name: "resolveStatus", Type: "int32"}, {Name: "result", Type: "bytes"}})}}
	partialResultArgs = abi.Arguments{{Name: "result", Type: mustType("tuple", []abi.ArgumentMarshaling{
		{Name: "calldata", Type: "bytes"}, {Name: "oracleScriptID", Type: "uint64"}, {Name: "requestID", Type: "uint64"}, {Name: "minCount", Type: "uint64"},
		{Name: "resolveTime", Type: "int64"}, {Name: "resolveStatus", Type: "int32"}, {Name: "result", Type: "bytes"}})}}
)

type RelayPrice struct {
	SignalID string // right-aligned bytes32 with leading zeros stripped
	Value    uint64
}

func id32(b [32]byte) string { return strings.TrimLeft(string(b[:]), "\x00") }

func DecodeFeedsPrices(body []byte) ([]RelayPrice, int64, error) {
	vals, err := feedsArgs.Unpack(body)
	if err != nil {
		return nil, 0, err
	}
	var out struct {
		Prices []struct {
			SignalID [32]byte
			Price    uint64
		}
		Timestamp int64
	}
	if err := feedsArgs.Copy(&out, vals); err != nil {
		return nil, 0, err
	}
	var ps []RelayPrice
	for _, p := range out.Prices {
		ps = append(ps, RelayPrice{id32(p.SignalID), p.Price})
	}
	// canonical: re-encoding must give the same bytes (no trailing garbage)
	if re, err := feedsArgs.Pack(out.Prices, out.Timestamp); err != nil || !bytes.Equal(re, body) {
		return nil, 0, fmt.Errorf("feeds payload is not canonical ABI")
	}
	return ps, out.Timestamp, nil
}

func DecodeTunnelPacket(body []byte) (uint64, []RelayPrice, int64, error) {
	vals, err := packetArgs.Unpack(body)
	if err != nil {
		return 0, nil, 0, err
	}
	var out struct {
		Packet struct {
			Sequence    uint64
			RelayPrices []struct {
				SignalID [32]byte
				Price    uint64
			}
			CreatedAt int64
		}
	}
	if err := packetArgs.Copy(&out, vals); err != nil {
		return 0, nil, 0, err
	}
	var ps []RelayPrice
	for _, p := range out.Packet.RelayPrices {
		ps = append(ps, RelayPrice{id32(p.SignalID), p.Price})
	}
	if re, err := packetArgs.Pack(out.Packet); err != nil || !bytes.Equal(re, body) {
		return 0, nil, 0, fmt.Errorf("packet payload is not canonical ABI")
	}
	return out.Packet.Sequence, ps, out.Packet.CreatedAt, nil
}

type ResultFields struct {
	ClientID       string
	OracleScriptID uint64
	Calldata       []byte
	AskCount       uint64
	MinCount       uint64
	RequestID      uint64
	AnsCount       uint64
	RequestTime    int64
	ResolveTime    int64
	ResolveStatus  int32
	Result         []byte
}

func DecodeFullResult(body []byte) (ResultFields, error) {
	vals, err := fullResultArgs.Unpack(body)
	if err != nil {
		return ResultFields{}, err
	}
	var out struct{ Result ResultFields }
	if err := fullResultArgs.Copy(&out, vals); err != nil {
		return ResultFields{}, err
	}
	return out.Result, nil
}

func DecodePartialResult(body []byte) (ResultFields, error) {
	vals, err := partialResultArgs.Unpack(body)
	if err != nil {
		return ResultFields{}, err
	}
	var out struct {
		Result struct {
			Calldata       []byte
			OracleScriptID uint64
			RequestID      uint64
			MinCount       uint64
			ResolveTime    int64
			ResolveStatus  int32
			Result         []byte
		}
	}
	if err := partialResultArgs.Copy(&out, vals); err != nil {
		return ResultFields{}, err
	}
	r := out.Result
	return ResultFields{Calldata: r.Calldata, OracleScriptID: r.OracleScriptID, RequestID: r.RequestID, MinCount: r.MinCount, ResolveTime: r.ResolveTime, ResolveStatus: r.ResolveStatus, Result: r.Result}, nil
}

// ---- tick encoding ------------------------------------------------------------------------------

// TickBracket checks that encoded (tick + 2^18, or 0 for price 0) is the largest tick whose price 10^9 * 1.0001^tick does not
// exceed price. It returns (ok, conclusive): near-ties within 1e-24 relative are inconclusive.
func TickBracket(price, encoded uint64) (bool, bool) {
	if price == 0 {
		return encoded == 0, true
	}
	if encoded == 0 || encoded >= 1<<19 {
		return false, true
	}
	t := int64(encoded) - 262144
	P := new(big.Float).SetPrec(400).SetUint64(price)
	lo := tickPrice(t)
	hi := tickPrice(t + 1)
	eps := new(big.Float).SetPrec(400).Quo(P, new(big.Float).SetPrec(400).SetFloat64(1e24))
	near := func(a, b *big.Float) bool {
		d := new(big.Float).SetPrec(400).Sub(a, b)
		d.Abs(d)
		return d.Cmp(eps) < 0
	}
	if near(lo, P) || near(hi, P) {
		return true, false
	}
	return lo.Cmp(P) <= 0 && P.Cmp(hi) < 0, true
}

func tickPrice(t int64) *big.Float {
	base := new(big.Float).SetPrec(400).Quo(new(big.Float).SetPrec(400).SetInt64(10001), new(big.Float).SetPrec(400).SetInt64(10000))
	n := t
	if n < 0 {
		n = -n
	}
	res := new(big.Float).SetPrec(400).SetInt64(1)
	b := new(big.Float).SetPrec(400).Set(base)
	for n > 0 {
		if n&1 == 1 {
			res.Mul(res, b)
		}
		b.Mul(b, b)
		n >>= 1
	}
	if t < 0 {
		res.Quo(new(big.Float).SetPrec(400).SetInt64(1), res)
	}
	return res.Mul(res, new(big.Float).SetPrec(400).SetInt64(1_000_000_000))
}
