package ref

import (
	"bytes"
	"crypto/sha256"
	"encoding/binary"
	"errors"
	"fmt"
	"math/big"

	"github.com/ethereum/go-ethereum/accounts/abi"
	"github.com/ethereum/go-ethereum/crypto"
)

// Port of the destination-chain verifier (Band "Bridge" contract algorithm): everything is recomputed from the bytes a
// relayer would submit (EvmProofBytes) plus the validator set (eth addresses and powers) and the chain id.

type BridgeValidator struct {
	Addr  [20]byte
	Power uint64
}

type MerklePath struct {
	IsDataOnRight  bool
	SubtreeHeight  uint8
	SubtreeSize    *big.Int
	SubtreeVersion *big.Int
	SiblingHash    [32]byte
}

type bridgeSig struct {
	R                [32]byte
	S                [32]byte
	V                uint8
	EncodedTimestamp []byte
}

type relayData struct {
	MultiStore struct {
		OracleIAVLStateHash                   [32]byte
		MintStoreMerkleHash                   [32]byte
		ParamsToRestakeStoresMerkleHash       [32]byte
		RollingseedToTransferStoresMerkleHash [32]byte
		TssToUpgradeStoresMerkleHash          [32]byte
		AuthToIcahostStoresMerkleHash         [32]byte
	}
	MerkleParts struct {
		VersionAndChainIdHash             [32]byte
		Height                            uint64
		TimeSecond                        uint64
		TimeNanoSecond                    uint32
		LastBlockIdAndOther               [32]byte
		NextValidatorHashAndConsensusHash [32]byte
		LastResultsHash                   [32]byte
		EvidenceAndProposerHash           [32]byte
	}
	CommonEncodedVotePart struct {
		SignedDataPrefix []byte
		SignedDataSuffix []byte
	}
	Signatures []bridgeSig
}

type BridgeResult struct {
	ClientID       string
	OracleScriptID uint64
	Params         []byte
	AskCount       uint64
	MinCount       uint64
	RequestID      uint64
	AnsCount       uint64
	RequestTime    uint64
	ResolveTime    uint64
	ResolveStatus  uint8
	Result         []byte
}

var (
	b32 = abi.ArgumentMarshaling{Type: "bytes32"}
	pathComps = []abi.ArgumentMarshaling{{Name: "isDataOnRight", Type: "bool"}, {Name: "subtreeHeight", Type: "uint8"}, {Name: "subtreeSize", Type: "uint256"},
		{Name: "subtreeVersion", Type: "uint256"}, {Name: "siblingHash", Type: "bytes32"}}
	relayArgs = abi.Arguments{
		{Name: "multiStore", Type: mustType("tuple", []abi.ArgumentMarshaling{named("oracleIAVLStateHash"), named("mintStoreMerkleHash"), named("paramsToRestakeStoresMerkleHash"),
			named("rollingseedToTransferStoresMerkleHash"), named("tssToUpgradeStoresMerkleHash"), named("authToIcahostStoresMerkleHash")})},
		{Name: "merkleParts", Type: mustType("tuple", []abi.ArgumentMarshaling{named("versionAndChainIdHash"), {Name: "height", Type: "uint64"}, {Name: "timeSecond", Type: "uint64"},
			{Name: "timeNanoSecond", Type: "uint32"}, named("lastBlockIdAndOther"), named("nextValidatorHashAndConsensusHash"), named("lastResultsHash"), named("evidenceAndProposerHash")})},
		{Name: "commonEncodedVotePart", Type: mustType("tuple", []abi.ArgumentMarshaling{{Name: "signedDataPrefix", Type: "bytes"}, {Name: "signedDataSuffix", Type: "bytes"}})},
		{Name: "signatures", Type: mustType("tuple[]", []abi.ArgumentMarshaling{{Name: "r", Type: "bytes32"}, {Name: "s", Type: "bytes32"}, {Name: "v", Type: "uint8"}, {Name: "encodedTimestamp", Type: "bytes"}})},
	}
	resultComps = []abi.ArgumentMarshaling{{Name: "clientID", Type: "string"}, {Name: "oracleScriptID", Type: "uint64"}, {Name: "params", Type: "bytes"}, {Name: "askCount", Type: "uint64"},
		{Name: "minCount", Type: "uint64"}, {Name: "requestID", Type: "uint64"}, {Name: "ansCount", Type: "uint64"}, {Name: "requestTime", Type: "uint64"}, {Name: "resolveTime", Type: "uint64"},
		{Name: "resolveStatus", Type: "uint8"}, {Name: "result", Type: "bytes"}}
	verifyArgs = abi.Arguments{{Name: "blockHeight", Type: mustType("uint256", nil)}, {Name: "result", Type: mustType("tuple", resultComps)}, {Name: "version", Type: mustType("uint256", nil)},
		{Name: "merklePaths", Type: mustType("tuple[]", pathComps)}}
	verifyCountArgs = abi.Arguments{{Name: "blockHeight", Type: mustType("uint256", nil)}, {Name: "count", Type: mustType("uint256", nil)}, {Name: "version", Type: mustType("uint256", nil)},
		{Name: "merklePaths", Type: mustType("tuple[]", pathComps)}}
	outerSingle = abi.Arguments{{Type: mustType("bytes", nil)}, {Type: mustType("bytes", nil)}}
	outerMulti  = abi.Arguments{{Type: mustType("bytes", nil)}, {Type: mustType("bytes[]", nil)}}
)

func named(n string) abi.ArgumentMarshaling { return abi.ArgumentMarshaling{Name: n, Type: "bytes32"} }

func sha(parts ...[]byte) []byte {
	h := sha256.New()
	for _, p := range parts {
		h.Write(p)
	}
	return h.Sum(nil)
}
func leafHash(data []byte) []byte      { return sha([]byte{0}, data) }
func innerHash(l, r []byte) []byte     { return sha([]byte{1}, l, r) }
func uvarint(x uint64) []byte          { b := make([]byte, 10); return b[:binary.PutUvarint(b, x)] }
func svarint(x int64) []byte           { b := make([]byte, 10); return b[:binary.PutVarint(b, x)] }

// BridgeBlock is what relaying a block establishes.
type BridgeBlock struct {
	AppHash     []byte
	BlockHash   []byte
	OracleRoot  []byte
	Height      uint64
	Signers     [][20]byte
	SignedPower uint64
	VoteMsgs    [][]byte // reconstructed sign bytes, in signature order
}

// RelayBlock recomputes app hash, block hash and the signer set from the relay part of a proof.
func RelayBlock(relay []byte, chainID string, vals []BridgeValidator) (*BridgeBlock, error) {
	vs, err := relayArgs.Unpack(relay)
	if err != nil {
		return nil, fmt.Errorf("relay data does not decode: %w", err)
	}
	var rd relayData
	if err := relayArgs.Copy(&rd, vs); err != nil {
		return nil, err
	}
	ms := rd.MultiStore
	// positional multistore recombination:
	// auth..icahost | ((((mint, oracle), params..restake), rollingseed..transfer), tss..upgrade)
	oracleLeaf := leafHash(bytes.Join([][]byte{{6}, []byte("oracle"), {32}, sha(ms.OracleIAVLStateHash[:])}, nil))
	h := innerHash(ms.MintStoreMerkleHash[:], oracleLeaf)
	h = innerHash(h, ms.ParamsToRestakeStoresMerkleHash[:])
	h = innerHash(h, ms.RollingseedToTransferStoresMerkleHash[:])
	h = innerHash(h, ms.TssToUpgradeStoresMerkleHash[:])
	appHash := innerHash(ms.AuthToIcahostStoresMerkleHash[:], h)
	// header: 14 fields, simple merkle tree; the relayed parts are sub-tree roots
	mp := rd.MerkleParts
	heightLeaf := leafHash(append([]byte{8}, uvarint(mp.Height)...))
	var tsEnc []byte
	if mp.TimeSecond != 0 {
		tsEnc = append(append(tsEnc, 8), uvarint(mp.TimeSecond)...)
	}
	if mp.TimeNanoSecond != 0 {
		tsEnc = append(append(tsEnc, 16), uvarint(uint64(mp.TimeNanoSecond))...)
	}
	timeLeaf := leafHash(tsEnc)
	appLeaf := leafHash(append([]byte{10, 32}, appHash...))
	left := innerHash(innerHash(mp.VersionAndChainIdHash[:], innerHash(heightLeaf, timeLeaf)), mp.LastBlockIdAndOther[:])
	right := innerHash(innerHash(mp.NextValidatorHashAndConsensusHash[:], innerHash(appLeaf, mp.LastResultsHash[:])), mp.EvidenceAndProposerHash[:])
	blockHash := innerHash(left, right)
	out := &BridgeBlock{AppHash: appHash, BlockHash: blockHash, OracleRoot: ms.OracleIAVLStateHash[:], Height: mp.Height}
	// votes
	common := bytes.Join([][]byte{rd.CommonEncodedVotePart.SignedDataPrefix, blockHash, rd.CommonEncodedVotePart.SignedDataSuffix}, nil)
	encChain := append([]byte{50, byte(len(chainID))}, []byte(chainID)...)
	power := map[[20]byte]uint64{}
	var total uint64
	for _, v := range vals {
		power[v.Addr] = v.Power
		total += v.Power
	}
	var last [20]byte
	for i, s := range rd.Signatures {
		msg := bytes.Join([][]byte{common, {42, byte(len(s.EncodedTimestamp))}, s.EncodedTimestamp, encChain}, nil)
		if len(msg) > 127 {
			return nil, fmt.Errorf("vote message of %d bytes does not fit the single-byte length prefix", len(msg))
		}
		msg = append([]byte{byte(len(msg))}, msg...)
		if s.V != 27 && s.V != 28 {
			return nil, fmt.Errorf("signature %d: bad v %d", i, s.V)
		}
		sig := append(append(append([]byte{}, s.R[:]...), s.S[:]...), s.V-27)
		pub, err := crypto.SigToPub(sha(msg), sig)
		if err != nil {
			return nil, fmt.Errorf("signature %d: %w", i, err)
		}
		var addr [20]byte
		copy(addr[:], crypto.PubkeyToAddress(*pub).Bytes())
		if i > 0 && bytes.Compare(addr[:], last[:]) <= 0 {
			return nil, fmt.Errorf("signature %d: signers not in strictly increasing order", i)
		}
		last = addr
		p, ok := power[addr]
		if !ok {
			return nil, fmt.Errorf("signature %d recovers %X which is not a validator", i, addr)
		}
		out.Signers = append(out.Signers, addr)
		out.SignedPower += p
		out.VoteMsgs = append(out.VoteMsgs, msg[1:])
	}
	if out.SignedPower*3 <= total*2 {
		return nil, fmt.Errorf("signed power %d is not more than 2/3 of %d", out.SignedPower, total)
	}
	return out, nil
}

func climb(leaf []byte, paths []MerklePath) []byte {
	cur := leaf
	for _, p := range paths {
		l, r := cur, p.SiblingHash[:]
		if p.IsDataOnRight {
			l, r = p.SiblingHash[:], cur
		}
		cur = sha(svarint(int64(p.SubtreeHeight)), svarint(p.SubtreeSize.Int64()), svarint(p.SubtreeVersion.Int64()), []byte{32}, l, []byte{32}, r)
	}
	return cur
}

// VerifyOracleData hashes the encoded result up the IAVL path; encode is the protobuf encoder of a result.
func VerifyOracleData(verify []byte, encode func(BridgeResult) []byte) (uint64, BridgeResult, []byte, int, error) {
	vs, err := verifyArgs.Unpack(verify)
	if err != nil {
		return 0, BridgeResult{}, nil, 0, fmt.Errorf("verify data does not decode: %w", err)
	}
	var vd struct {
		BlockHeight *big.Int
		Result      BridgeResult
		Version     *big.Int
		MerklePaths []MerklePath
	}
	if err := verifyArgs.Copy(&vd, vs); err != nil {
		return 0, BridgeResult{}, nil, 0, err
	}
	key := append([]byte{0xff}, make([]byte, 8)...)
	binary.BigEndian.PutUint64(key[1:], vd.Result.RequestID)
	leaf := sha([]byte{0}, []byte{2}, svarint(vd.Version.Int64()), []byte{byte(len(key))}, key, []byte{32}, sha(encode(vd.Result)))
	return vd.BlockHeight.Uint64(), vd.Result, climb(leaf, vd.MerklePaths), len(vd.MerklePaths), nil
}

// VerifyCount does the same for the request count (key 0x00 || "RequestCount", value 8-byte big endian).
func VerifyCount(verify []byte) (uint64, uint64, []byte, error) {
	vs, err := verifyCountArgs.Unpack(verify)
	if err != nil {
		return 0, 0, nil, fmt.Errorf("count data does not decode: %w", err)
	}
	var vd struct {
		BlockHeight *big.Int
		Count       *big.Int
		Version     *big.Int
		MerklePaths []MerklePath
	}
	if err := verifyCountArgs.Copy(&vd, vs); err != nil {
		return 0, 0, nil, err
	}
	key := append([]byte{0}, []byte("RequestCount")...)
	val := make([]byte, 8)
	binary.BigEndian.PutUint64(val, vd.Count.Uint64())
	leaf := sha([]byte{0}, []byte{2}, svarint(vd.Version.Int64()), []byte{byte(len(key))}, key, []byte{32}, sha(val))
	return vd.BlockHeight.Uint64(), vd.Count.Uint64(), climb(leaf, vd.MerklePaths), nil
}

func SplitSingle(evm []byte) ([]byte, []byte, error) {
	vs, err := outerSingle.Unpack(evm)
	if err != nil || len(vs) != 2 {
		return nil, nil, errors.New("proof bytes are not (bytes, bytes)")
	}
	return vs[0].([]byte), vs[1].([]byte), nil
}

func SplitMulti(evm []byte) ([]byte, [][]byte, error) {
	vs, err := outerMulti.Unpack(evm)
	if err != nil || len(vs) != 2 {
		return nil, nil, errors.New("proof bytes are not (bytes, bytes[])")
	}
	return vs[0].([]byte), vs[1].([][]byte), nil
}
